from hotxlfp.helper import cell
from hotxlfp.formulas import mathtrig, operators, information, logic, lookupandreference as lr, engineering

def c2l_len(i: int) -> bool:
    """
    pre: 0 <= i < 18278
    post: _
    """
    s = cell.column_index_to_label(i)
    return 1 <= len(s) <= 3

def row_rt(i: int) -> bool:
    """
    pre: 0 <= i < 2000000
    post: _
    """
    return cell.row_label_to_index(cell.row_index_to_label(i)) == i

def int_floor(x: int) -> bool:
    """
    post: _
    """
    return mathtrig.INT(x) == x

def sign(x: int) -> bool:
    """
    post: _
    """
    s = mathtrig.SIGN(x)
    return (s == 0) == (x == 0) and (s == 1) == (x > 0) and (s == -1) == (x < 0)

def cmp_tricho(a: int, b: int) -> bool:
    """
    post: _
    """
    lt = operators.evaluate_logic('<', a, b)
    eq = operators.evaluate_logic('=', a, b)
    gt = operators.evaluate_logic('>', a, b)
    return (lt + eq + gt) == 1

def mod_spec(n: int, d: int) -> bool:
    """
    pre: d != 0
    post: _
    """
    m = mathtrig.MOD(n, d)
    return (n - m) % d == 0 and (m == 0 or (m > 0) == (d > 0)) and abs(m) < abs(d)

def odd_spec(n: int) -> bool:
    """
    post: _
    """
    r = mathtrig.ODD(n)
    return r % 2 == 1 and abs(r) >= abs(n)

def hex_rt(n: int) -> bool:
    """
    pre: -549755813888 <= n < 549755813888
    post: _
    """
    return engineering.HEX2DEC(engineering.DEC2HEX(n)) == n
