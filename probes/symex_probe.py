"""PROBE (design phase, throwaway): native symbolic execution of the repo's real source.

The real module source is loaded from /repo, compiled unchanged, and executed by CPython in a
namespace whose builtins / `math` are replaced by symbolic-aware shims.  Values are proxies
over z3 terms; every bool() of a symbolic condition is a fork decided by the solver; paths are
explored by re-execution with a decision prefix (DFS).  Exhaustion of the path tree with no
'unmodelled' event = verdict over all inputs in the stated bounds.
"""
import builtins, importlib.util, sys, time, types, math as _math
import z3


class Unmodelled(BaseException):
    pass


class UnwindExceeded(BaseException):
    pass


class PathAbort(BaseException):
    pass


class Engine:
    def __init__(self, max_decisions=400):
        self.max_decisions = max_decisions
        self.stats = dict(paths=0, solver_calls=0, solver_time=0.0)

    def explore(self, fn):
        """fn(engine) is run once per path; returns list of (decisions, outcome)."""
        work = [[]]
        results = []
        while work:
            prefix = work.pop()
            self.decisions = list(prefix)
            self.pos = 0
            self.solver = z3.Solver()
            self.pending = []
            self.nvars = 0
            global ENGINE
            ENGINE = self
            try:
                out = ('ok', fn(self))
            except Unmodelled as e:
                out = ('unmodelled', str(e))
            except UnwindExceeded as e:
                out = ('unwind', str(e))
            except PathAbort:
                out = ('infeasible', None)
            self.stats['paths'] += 1
            results.append((list(self.decisions), out, self.solver))
            work.extend(self.pending)
        return results

    def check(self, *assumptions):
        t0 = time.time()
        r = self.solver.check(*assumptions)
        self.stats['solver_calls'] += 1
        self.stats['solver_time'] += time.time() - t0
        if r == z3.unknown:
            raise Unmodelled('solver unknown')
        return r == z3.sat

    def fresh_int(self, name, lo=None, hi=None):
        self.nvars += 1
        v = z3.Int('%s' % name)
        if lo is not None:
            self.solver.add(v >= lo)
        if hi is not None:
            self.solver.add(v <= hi)
        return SymInt(v)

    def assume(self, cond):
        self.solver.add(cond.z if isinstance(cond, SymBool) else cond)
        if not self.check():
            raise PathAbort()

    def branch(self, z):
        z = z3.simplify(z)
        if z3.is_true(z):
            return True
        if z3.is_false(z):
            return False
        if self.pos < len(self.decisions):
            d = self.decisions[self.pos]
            self.pos += 1
            self.solver.add(z if d else z3.Not(z))
            return d
        if len(self.decisions) >= self.max_decisions:
            raise UnwindExceeded('decision bound %d' % self.max_decisions)
        can_t = self.check(z)
        can_f = self.check(z3.Not(z))
        if can_t and can_f:
            self.pending.append(self.decisions + [False])
            d = True
        elif can_t:
            d = True
        elif can_f:
            d = False
        else:
            raise PathAbort()
        self.decisions.append(d)
        self.pos += 1
        self.solver.add(z if d else z3.Not(z))
        return d


ENGINE = None


def zint(x):
    if isinstance(x, SymInt):
        return x.z
    if isinstance(x, SymBool):
        return z3.If(x.z, 1, 0)
    if isinstance(x, bool):
        return z3.IntVal(int(x))
    if isinstance(x, int):
        return z3.IntVal(x)
    return None


class SymBool:
    def __init__(self, z):
        self.z = z

    def __bool__(self):
        return ENGINE.branch(self.z)

    def __eq__(self, o):
        if isinstance(o, (SymBool, bool)):
            return SymBool(self.z == (o.z if isinstance(o, SymBool) else z3.BoolVal(o)))
        return SymInt(zint(self)) == o
    __hash__ = None

    def __add__(self, o):
        return SymInt(zint(self)) + o
    __radd__ = __add__

    def __and__(self, o):
        return SymInt(zint(self)) & o


def fdiv(a, b):
    # python floor division on z3 ints
    return z3.If(b > 0, a / b, (-a) / (-b))


class SymInt:
    def __init__(self, z):
        self.z = z

    def _bin(self, o, f, r=False):
        oz = zint(o)
        if oz is None:
            return NotImplemented
        return SymInt(f(oz, self.z) if r else f(self.z, oz))

    def __add__(self, o): return self._bin(o, lambda a, b: a + b)
    def __radd__(self, o): return self._bin(o, lambda a, b: a + b, True)
    def __sub__(self, o): return self._bin(o, lambda a, b: a - b)
    def __rsub__(self, o): return self._bin(o, lambda a, b: a - b, True)
    def __mul__(self, o): return self._bin(o, lambda a, b: a * b)
    def __rmul__(self, o): return self._bin(o, lambda a, b: a * b, True)
    def __neg__(self): return SymInt(-self.z)
    def __abs__(self): return SymInt(z3.If(self.z < 0, -self.z, self.z))

    def _divcheck(self, oz):
        if SymBool(oz == 0):
            raise ZeroDivisionError('integer division or modulo by zero')

    def __floordiv__(self, o):
        oz = zint(o)
        if oz is None: return NotImplemented
        self._divcheck(oz)
        return SymInt(fdiv(self.z, oz))

    def __rfloordiv__(self, o):
        oz = zint(o)
        if oz is None: return NotImplemented
        self._divcheck(self.z)
        return SymInt(fdiv(oz, self.z))

    def __mod__(self, o):
        oz = zint(o)
        if oz is None: return NotImplemented
        self._divcheck(oz)
        return SymInt(self.z - oz * fdiv(self.z, oz))

    def __rmod__(self, o):
        oz = zint(o)
        if oz is None: return NotImplemented
        self._divcheck(self.z)
        return SymInt(oz - self.z * fdiv(oz, self.z))

    def __and__(self, o):
        if o == 1 and isinstance(o, int):
            return SymInt(self.z - 2 * fdiv(self.z, z3.IntVal(2)))
        raise Unmodelled('int & %r' % (o,))

    def _cmp(self, o, f):
        oz = zint(o)
        if oz is None:
            return NotImplemented
        return SymBool(f(self.z, oz))

    def __lt__(self, o): return self._cmp(o, lambda a, b: a < b)
    def __le__(self, o): return self._cmp(o, lambda a, b: a <= b)
    def __gt__(self, o): return self._cmp(o, lambda a, b: a > b)
    def __ge__(self, o): return self._cmp(o, lambda a, b: a >= b)

    def __eq__(self, o):
        oz = zint(o)
        if oz is None:
            return False
        return SymBool(self.z == oz)

    def __ne__(self, o):
        oz = zint(o)
        if oz is None:
            return True
        return SymBool(self.z != oz)
    __hash__ = None

    def __bool__(self):
        return ENGINE.branch(self.z != 0)

    def __ceil__(self): return self
    def __floor__(self): return self
    def __index__(self):
        raise Unmodelled('__index__ on symbolic int')


# ---- shims ------------------------------------------------------------------
import ast
SYM = ()  # filled below


def is_sym(x):
    return isinstance(x, (SymInt, SymBool))


def pytype(x):
    return int if isinstance(x, SymInt) else bool if isinstance(x, SymBool) else type(x)


def m_isinstance(x, t):
    if is_sym(x):
        ts = t if isinstance(t, tuple) else (t,)
        return any(issubclass(pytype(x), c) for c in ts)
    return isinstance(x, t)


def m_type(x, *a):
    return type(x, *a) if a else pytype(x)


def m_int(x=0, *a):
    if isinstance(x, SymInt) and not a:
        return x
    if isinstance(x, SymBool):
        return SymInt(zint(x))
    raise Unmodelled('int(%r)' % (a,))


def m_str(x=''):
    raise Unmodelled('str(symbolic int)')


def m_ceilfloor(x):
    if isinstance(x, (SymInt, SymBool)):
        return SymInt(zint(x))
    raise Unmodelled('ceil/floor')


MODELS = {isinstance: m_isinstance, type: m_type, int: m_int, str: m_str, abs: abs,
          _math.ceil: m_ceilfloor, _math.floor: m_ceilfloor, _math.trunc: m_ceilfloor}
UNMODELLED_LOG = {}


def sym_call(f, *a, **kw):
    if any(is_sym(x) for x in a) or any(is_sym(x) for x in kw.values()):
        m = MODELS.get(f)
        if m is not None:
            return m(*a, **kw)
        if isinstance(f, (types.BuiltinFunctionType, types.BuiltinMethodType, type)) and f not in (list, tuple):
            UNMODELLED_LOG[getattr(f, '__qualname__', repr(f))] = UNMODELLED_LOG.get(getattr(f, '__qualname__', repr(f)), 0) + 1
            raise Unmodelled('call %s' % getattr(f, '__qualname__', f))
    return f(*a, **kw)


class Instrument(ast.NodeTransformer):
    def visit_Call(self, node):
        self.generic_visit(node)
        if isinstance(node.func, ast.Name) and node.func.id == 'super':
            return node
        if (isinstance(node.func, ast.Attribute) and isinstance(node.func.value, ast.Name)
                and node.func.value.id in ('lex', 'yacc') and node.func.attr in ('lex', 'yacc')):
            return node   # ply builders inspect the caller frame; they never receive symbolic values
        return ast.copy_location(ast.Call(func=ast.Name('__sym_call__', ast.Load()),
                                          args=[node.func] + node.args, keywords=node.keywords), node)


def load_real(modname, root='/repo'):
    """Import the real package from `root`; every hotxlfp module is parsed from its source on disk,
    Call nodes are routed through sym_call, and the result is exec'd natively by CPython."""
    import importlib.abc, importlib.machinery, os

    class Loader(importlib.abc.Loader):
        def __init__(self, path):
            self.path = path
        def create_module(self, spec):
            return None
        def exec_module(self, module):
            src = open(self.path, encoding='utf-8').read()
            tree = ast.fix_missing_locations(Instrument().visit(ast.parse(src, self.path)))
            code = compile(tree, self.path, 'exec', dont_inherit=True)
            module.__dict__['__sym_call__'] = sym_call
            exec(code, module.__dict__)

    class Finder(importlib.abc.MetaPathFinder):
        def find_spec(self, name, path, target=None):
            if name != 'hotxlfp' and not name.startswith('hotxlfp.'):
                return None
            rel = name.replace('.', '/')
            pkg = os.path.join(root, rel, '__init__.py')
            mod = os.path.join(root, rel + '.py')
            if os.path.exists(pkg):
                return importlib.util.spec_from_file_location(name, pkg, loader=Loader(pkg), submodule_search_locations=[os.path.dirname(pkg)])
            if os.path.exists(mod):
                return importlib.util.spec_from_file_location(name, mod, loader=Loader(mod))
            return None
    for k in [k for k in sys.modules if k == 'hotxlfp' or k.startswith('hotxlfp.')]:
        del sys.modules[k]
    sys.meta_path.insert(0, Finder())
    importlib.import_module('hotxlfp')
    return importlib.import_module(modname)


# ---- harnesses ----------------------------------------------------------------
def run(name, body, check, **kw):
    """body(engine) -> value ; check(value) -> SymBool/bool that must hold."""
    eng = Engine(**kw)
    t0 = time.time()

    def one(e):
        v = body(e)
        ok = check(v)
        z = ok.z if isinstance(ok, SymBool) else z3.BoolVal(bool(ok))
        if e.check(z3.Not(z)):
            return ('CEX', e.solver.model())
        return ('holds', None)
    res = eng.explore(one)
    kinds = {}
    for d, (st, v), _ in res:
        key = st if st != 'ok' else v[0]
        kinds[key] = kinds.get(key, 0) + 1
    cex = [v[1] for d, (st, v), _ in res if st == 'ok' and v[0] == 'CEX']
    for d, (st, v), sol in res:
        if st == 'unmodelled': print('   unmodelled:', v)
        if st == 'unwind':
            sol.check(); print('   unwind witness:', sol.model()); break
    print('%-22s paths=%d %s solver_calls=%d solver=%.2fs wall=%.2fs' % (
        name, len(res), kinds, eng.stats['solver_calls'], eng.stats['solver_time'], time.time() - t0),
        ('first cex: %s' % cex[0]) if cex else '')
    return res


if __name__ == '__main__':
    mt = load_real('hotxlfp.formulas.mathtrig')
    ops = sys.modules['hotxlfp.formulas.operators']
    err = sys.modules['hotxlfp.formulas.error']
    info = sys.modules['hotxlfp.formulas.information']
    lr = sys.modules['hotxlfp.formulas.lookupandreference']

    def is_err(v):
        return isinstance(v, err.XLError)

    # ODD: nearest odd integer at or beyond n, away from zero
    def odd_body(e):
        e.n = e.fresh_int('n')
        return mt.ODD(e.n)

    def odd_check(r):
        n = ENGINE.n
        return SymBool(z3.And(r.z % 2 == 1,
                              z3.If(n.z >= 0, z3.And(r.z >= n.z, r.z <= n.z + 1), z3.And(r.z <= n.z, r.z >= n.z - 1))))
    run('ODD(int)', odd_body, odd_check)

    def even_body(e):
        e.n = e.fresh_int('n')
        return mt.EVEN(e.n)

    def even_check(r):
        n = ENGINE.n
        return SymBool(z3.And(r.z % 2 == 0,
                              z3.If(n.z >= 0, z3.And(r.z >= n.z, r.z <= n.z + 1), z3.And(r.z <= n.z, r.z >= n.z - 1))))
    run('EVEN(int)', even_body, even_check)

    # MOD spec: n = d*q + MOD, sign of divisor, |MOD|<|d| ; d=0 -> DIV/0
    def mod_body(e):
        e.n = e.fresh_int('n'); e.d = e.fresh_int('d')
        return mt.MOD(e.n, e.d)

    def mod_check(r):
        n, d = ENGINE.n.z, ENGINE.d.z
        if is_err(r):
            return SymBool(d == 0) if r is err.DIV_ZERO else False
        q = z3.Int('q')
        m = r.z
        return SymBool(z3.And(d != 0, (n - m) % d == 0, z3.If(d > 0, z3.And(m >= 0, m < d), z3.And(m <= 0, m > d))))
    run('MOD(int,int)', mod_body, mod_check)

    # BASE termination: loop must finish within the decision bound for |value| <= 2**12
    def base_body(e):
        e.n = e.fresh_int('n', -5, 4096); e.r = e.fresh_int('r', -2, 40)
        MODELS[str] = lambda x='': 'D'
        try:
            return mt.BASE(e.n, e.r)
        except Exception as ex:
            return ('raised', type(ex).__name__)
    run('BASE terminates', base_body, lambda r: True, max_decisions=60)

    # comparisons: trichotomy over ints x bools (bool concrete)
    def tri_body(e):
        e.a = e.fresh_int('a')
        return [ops.evaluate_logic(o, e.a, e.bval) for o in ('<', '=', '>')]

    for bval in (True, False, None, 'x'):
        def tb(e, bval=bval):
            e.bval = bval
            return tri_body(e)

        def tc(r):
            z = [x.z if isinstance(x, SymBool) else z3.BoolVal(bool(x)) for x in r]
            return SymBool(z3.PbEq([(c, 1) for c in z], 1))
        run('trichotomy int vs %r' % (bval,), tb, tc)

    # CHOOSE with symbolic index
    def ch_body(e):
        e.i = e.fresh_int('i')
        return lr.CHOOSE(e.i, 'a', 'b', 'c')
    run('CHOOSE', ch_body, lambda r: True)
