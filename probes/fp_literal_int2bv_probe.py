"""probe: same claim as fp_literal_probe.py but with the integers as z3 Int terms of digit variables (as engine S has
them), bridged by Int2BV - is the mixed LIA/BV/FP query decidable?"""
import sys, time, z3
k = 2
rm, F = z3.RNE(), z3.Float64()
ds = [z3.Int('d%d' % i) for i in range(4)]
s = z3.Solver(); s.set('timeout', 90000)
for d in ds: s.add(d >= 0, d <= 9)
a = ds[0] * 10 + ds[1]; b = ds[2] * 10 + ds[3]
W = int(sys.argv[1]) if len(sys.argv) > 1 else 64
fp = lambda t: z3.fpSignedToFP(rm, z3.Int2BV(t, W), F)
got = z3.fpAdd(rm, fp(a), z3.fpDiv(rm, fp(b), fp(z3.IntVal(100))))
want = z3.fpDiv(rm, fp(a * 100 + b), fp(z3.IntVal(100)))
s.add(z3.Not(z3.fpEQ(got, want)))
t = time.time(); r = s.check(); print(W, r, round(time.time() - t, 1))
if str(r) == 'sat': print([s.model()[d] for d in ds])
