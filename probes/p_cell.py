from hotxlfp.helper import cell

def col_roundtrip(i: int) -> bool:
    """
    pre: 0 <= i < 500000
    post: _
    """
    return cell.column_label_to_index(cell.column_index_to_label(i)) == i

def col_monotone_len(i: int) -> bool:
    """
    pre: 0 <= i < 500000
    post: _
    """
    s = cell.column_index_to_label(i)
    n = len(s)
    return (n == 1) == (i < 26) and (n == 2) == (26 <= i < 702) and (n == 3) == (702 <= i < 18278)

def label_to_index(s: str) -> bool:
    """
    pre: 1 <= len(s) <= 3
    pre: all(c in 'ABCDEFGHIJKLMNOPQRSTUVWXYZ' for c in s)
    post: _
    """
    i = cell.column_label_to_index(s)
    return cell.column_index_to_label(i) == s
