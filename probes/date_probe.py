import z3, time
def fdiv(a,b): return a / b   # z3 Int div, b>0 const => floor
def days_before_year(y):
    y1 = y - 1
    return y1*365 + fdiv(y1,4) - fdiv(y1,100) + fdiv(y1,400)
def is_leap(y): return z3.And(y % 4 == 0, z3.Or(y % 100 != 0, y % 400 == 0))
DBM = [0,31,59,90,120,151,181,212,243,273,304,334]
def days_before_month(y, m):
    e = z3.IntVal(0)
    for i in range(12):
        e = z3.If(m == i+1, z3.IntVal(DBM[i]) + z3.If(z3.And(i+1 > 2, is_leap(y)), 1, 0), e)
    return e
def dim(y,m):
    e = z3.IntVal(31)
    for i,v in enumerate([31,28,31,30,31,30,31,31,30,31,30,31]):
        e = z3.If(m == i+1, z3.IntVal(v) + (z3.If(is_leap(y),1,0) if i==1 else 0), e)
    return e
def ymd2ord(y,m,d): return days_before_year(y) + days_before_month(y,m) + d
# _pydatetime._ord2ymd
def ord2ymd(n):
    n = n - 1
    n400 = fdiv(n, 146097); n = n % 146097
    year = n400*400 + 1
    n100 = fdiv(n, 36524); n = n % 36524
    n4 = fdiv(n, 1461); n = n % 1461
    n1 = fdiv(n, 365); n = n % 365
    year = year + n100*100 + n4*4 + n1
    special = z3.Or(n1 == 4, n100 == 4)
    # normal case
    leapyear = z3.And(n1 == 3, z3.Or(n4 != 24, n100 == 3))
    month = fdiv(n + 50, 32)
    def dbm(mm, leap):
        e = z3.IntVal(0)
        for i in range(12):
            e = z3.If(mm == i+1, z3.IntVal(DBM[i]) + z3.If(z3.And(i+1 > 2, leap), 1, 0), e)
        return e
    def dimm(mm, leap):
        e = z3.IntVal(31)
        for i,v in enumerate([31,28,31,30,31,30,31,31,30,31,30,31]):
            e = z3.If(mm == i+1, z3.IntVal(v) + (z3.If(leap,1,0) if i==1 else 0), e)
        return e
    preceding = dbm(month, leapyear)
    over = preceding > n
    month2 = z3.If(over, month - 1, month)
    preceding2 = z3.If(over, preceding - dimm(month - 1, leapyear), preceding)
    y = z3.If(special, year - 1, year); m = z3.If(special, 12, month2); d = z3.If(special, 31, n - preceding2 + 1)
    return y, m, d
y,m,d = z3.Ints('y m d')
s = z3.Solver(); s.set('timeout', 600000)
s.add(y >= 1900, y <= 9999, m >= 1, m <= 12, d >= 1, d <= dim(y,m))
o = ymd2ord(y,m,d)
y2,m2,d2 = ord2ymd(o)
s.push(); s.add(z3.Or(y2 != y, m2 != m, d2 != d))
t0=time.time(); print('YEAR/MONTH/DAY(DATE(y,m,d)) roundtrip:', s.check(), '%.1fs'%(time.time()-t0)); s.pop()
# weekday = (ord + 6) % 7 ; monotone: ord strictly increases with (y,m,d) lexicographic
ya,ma,da = z3.Ints('ya ma da')
s.add(ya >= 1900, ya <= 9999, ma >= 1, ma <= 12, da >= 1, da <= dim(ya,ma))
lexlt = z3.Or(y < ya, z3.And(y == ya, z3.Or(m < ma, z3.And(m == ma, d < da))))
s.push(); s.add(lexlt, z3.Not(o < ymd2ord(ya,ma,da)))
t0=time.time(); print('ordinal strictly monotone:', s.check(), '%.1fs'%(time.time()-t0)); s.pop()
