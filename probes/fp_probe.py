import z3, time, sys
F = z3.Float64(); RNE = z3.RNE()
def q(name, build, timeout=120000):
    s = z3.Solver(); s.set('timeout', timeout)
    build(s)
    t0=time.time(); r = s.check(); dt=time.time()-t0
    print('%-50s %s %.1fs' % (name, r, dt), s.model() if r==z3.sat else '')
# Q1: exists n in [0,2^20): fl(fl(n)*0.01) != fl(n/100)
def q1(s):
    n = z3.BitVec('n', 32); s.add(z3.ULT(n, 1<<20))
    x = z3.fpSignedToFP(RNE, n, F)
    a = z3.fpMul(RNE, x, z3.FPVal(0.01, F)); b = z3.fpDiv(RNE, x, z3.FPVal(100.0, F))
    s.add(z3.Not(z3.fpEQ(a, b)))
q('Q1 n*0.01 != n/100 (expect sat)', q1)
# Q2: for n multiple of 100 in [0, 10^6]: ceil(fl(n)*0.01)*... ROUNDUP(n,-2) == n ?
def q2(s):
    k = z3.BitVec('k', 32); s.add(z3.ULT(k, 10000))
    n = k*100
    x = z3.fpSignedToFP(RNE, n, F)
    a = z3.fpMul(RNE, x, z3.FPVal(0.01, F))
    c = z3.fpRoundToIntegral(z3.RTP(), a)
    s.add(z3.Not(z3.fpEQ(c, z3.fpSignedToFP(RNE, k, F))))
q('Q2 ceil(100k*0.01) != k (ROUNDUP digits=-2)', q2)
# Q3: QUOTIENT int(a/b) == trunc quotient for 32-bit a, b != 0 ? (double rounding near integers for big a)
def q3(s):
    a = z3.BitVec('a', 64); b = z3.BitVec('b', 64)
    s.add(a >= -(1<<52), a <= (1<<52), b >= 1, b <= (1<<20))
    fa = z3.fpSignedToFP(RNE, a, F); fb = z3.fpSignedToFP(RNE, b, F)
    qf = z3.fpRoundToIntegral(z3.RTZ(), z3.fpDiv(RNE, fa, fb))
    tq = z3.If(a >= 0, z3.UDiv(a, b), -z3.UDiv(-a, b))
    s.add(z3.Not(z3.fpEQ(qf, z3.fpSignedToFP(RNE, tq, F))))
q('Q3 int(a/b) != trunc(a/b), |a|<=2^52 b<=2^20', q3, 300000)
# Q4: serial of whole-day date: ((d*86400*1000) - D0)/86400000 + 2 exact?  d = days since 1970 in [-25567, 2932896]
def q4(s):
    d = z3.BitVec('d', 64); s.add(d >= -25567, d <= 2932896)
    secs = z3.fpSignedToFP(RNE, d*86400, F)          # total_seconds(): exact integer
    ms = z3.fpMul(RNE, secs, z3.FPVal(1000.0, F))
    d1900 = z3.FPVal(-2208988800000.0, F)
    ser = z3.fpAdd(RNE, z3.fpDiv(RNE, z3.fpSub(RNE, ms, d1900), z3.FPVal(86400000.0, F)), z3.FPVal(2.0, F))
    exact = z3.fpSignedToFP(RNE, d + 25567 + 2, F)
    s.add(z3.Not(z3.fpEQ(ser, exact)))
q('Q4 whole-day serial inexact? (expect unsat)', q4, 300000)
