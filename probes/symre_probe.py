"""PROBE (design phase, throwaway): symbolic regex matching on bounded symbolic strings.

SymStr = concrete-length tuple of z3 Int code points.  The matcher walks Python's own parse tree
(re._parser.parse) of the *real* compiled patterns (ply master regex, LABEL_EXTRACT_REGEXP ...),
in sre's backtracking priority order; each character-class test is a SymBool, i.e. a solver fork.
"""
import re, sys, time
import re._parser as sre_parse
import re._constants as C
import z3
import symex_probe as S
from symex_probe import SymBool, Engine

# ---- category tables computed from the real `re` over all code points -------------------------
def _ranges(pred):
    out = []; start = None
    for cp in range(0x110000):
        if pred(cp):
            if start is None: start = cp
        elif start is not None:
            out.append((start, cp - 1)); start = None
    if start is not None: out.append((start, 0x10FFFF))
    return out

_t0 = time.time()
_CAT = {}
for name, pat in (('SPACE', r'\s'), ('DIGIT', r'\d'), ('WORD', r'\w')):
    rx = re.compile(pat)
    _CAT[name] = _ranges(lambda cp: rx.match(chr(cp)) is not None)
print('category tables: %.1fs' % (time.time() - _t0), {k: len(v) for k, v in _CAT.items()})


def in_ranges(c, ranges):
    return z3.Or(*[(c == lo) if lo == hi else z3.And(c >= lo, c <= hi) for lo, hi in ranges]) if ranges else z3.BoolVal(False)


def cat_formula(c, cat):
    n = str(cat)
    neg = 'NOT_' in n
    key = 'SPACE' if 'SPACE' in n else 'DIGIT' if 'DIGIT' in n else 'WORD' if 'WORD' in n else None
    if key is None:
        raise S.Unmodelled('regex category %s' % n)
    f = in_ranges(c, _CAT[key])
    return z3.Not(f) if neg else f


def class_formula(c, items):
    neg = False; fs = []
    for op, av in items:
        if op is C.NEGATE: neg = True
        elif op is C.LITERAL: fs.append(c == av)
        elif op is C.RANGE: fs.append(z3.And(c >= av[0], c <= av[1]))
        elif op is C.CATEGORY: fs.append(cat_formula(c, av))
        else: raise S.Unmodelled('class item %s' % op)
    f = z3.Or(*fs) if fs else z3.BoolVal(False)
    return z3.Not(f) if neg else f


def zc(ch):
    return ch if z3.is_expr(ch) else z3.IntVal(ch)


def match_seq(nodes, k, s, i, groups, cont):
    """CPS backtracking matcher: returns result of cont(i, groups) for the first (priority order) success, else None."""
    if k == len(nodes):
        return cont(i, groups)
    op, av = nodes[k]
    nxt = lambda j, g: match_seq(nodes, k + 1, s, j, g, cont)
    if op is C.LITERAL or op is C.NOT_LITERAL or op is C.IN or op is C.ANY:
        if i >= len(s): return None
        c = zc(s[i])
        if op is C.LITERAL: f = c == av
        elif op is C.NOT_LITERAL: f = c != av
        elif op is C.ANY: f = c != 10
        else: f = class_formula(c, av)
        if SymBool(f): return nxt(i + 1, groups)
        return None
    if op is C.SUBPATTERN:
        gid, addf, delf, sub = av
        def after(j, g):
            if gid is not None:
                g = dict(g); g[gid] = (i, j)
            return nxt(j, g)
        return match_seq(list(sub), 0, s, i, groups, after)
    if op is C.BRANCH:
        for alt in av[1]:
            r = match_seq(list(alt), 0, s, i, groups, nxt)
            if r is not None: return r
        return None
    if op is C.MAX_REPEAT or op is C.MIN_REPEAT:
        lo, hi, sub = av
        sub = list(sub)
        greedy = op is C.MAX_REPEAT
        def rep(count, j, g):
            def more():
                if hi is not C.MAXREPEAT and count >= hi: return None
                return match_seq(sub, 0, s, j, g, lambda j2, g2: rep(count + 1, j2, g2) if j2 > j else None)
            def stop():
                return nxt(j, g) if count >= lo else None
            for f in ((more, stop) if greedy else (stop, more)):
                r = f()
                if r is not None: return r
            return None
        return rep(0, i, groups)
    if op is C.AT:
        if av is C.AT_BEGINNING or av is C.AT_BEGINNING_STRING:
            return nxt(i, groups) if i == 0 else None
        if av is C.AT_END:
            if i == len(s): return nxt(i, groups)
            if i == len(s) - 1 and SymBool(zc(s[i]) == 10): return nxt(i, groups)
            return None
        if av is C.AT_END_STRING:
            return nxt(i, groups) if i == len(s) else None
        raise S.Unmodelled('AT %s' % av)
    if op is C.ASSERT or op is C.ASSERT_NOT:
        direction, sub = av
        if direction != 1: raise S.Unmodelled('lookbehind')
        r = match_seq(list(sub), 0, s, i, groups, lambda j, g: (j, g))
        if (r is not None) == (op is C.ASSERT):
            return nxt(i, groups)
        return None
    raise S.Unmodelled('regex op %s' % op)


def sym_match(pattern, s, pos=0):
    """re.Pattern.match(s, pos) on a symbolic string; returns (end, groups, lastindex) or None."""
    tree = sre_parse.parse(pattern.pattern, pattern.flags)
    r = match_seq(list(tree), 0, s, pos, {}, lambda j, g: (j, g))
    if r is None: return None
    end, groups = r
    # lastindex = group closed last = max end, outermost => for the ply master regex, the top-level named group
    last = None
    for gid, (a, b) in groups.items():
        if last is None or (b, -a) >= (groups[last][1], -groups[last][0]): last = gid
    return end, groups, last


def lex_all(lexer, s, errclass):
    """ply's token loop (lexignore == '', no literals), using the real lexer object's lexre/lexindexfunc."""
    toks = []; pos = 0
    while pos < len(s):
        for lexre, lexindexfunc in lexer.lexre:
            m = sym_match(lexre, s, pos)
            if m is None: continue
            end, groups, last = m
            func, ttype = lexindexfunc[last]
            pos = end
            if ttype != 'WHITESPACE':   # t_WHITESPACE returns None
                toks.append(ttype)
            break
        else:
            return toks + ['<t_error>']
    return toks


if __name__ == '__main__':
    L = int(sys.argv[1]) if len(sys.argv) > 1 else 2
    S.load_real('hotxlfp')
    import hotxlfp
    P = hotxlfp.Parser()
    lexer = P.parser.lex
    print('master regexes:', len(lexer.lexre), 'flags', lexer.lexre[0][0].flags)
    for n in range(0, L + 1):
        eng = Engine(max_decisions=2000)
        t0 = time.time()
        seqs = {}
        def one(e):
            s = tuple(z3.Int('c%d' % i) for i in range(n))
            for c in s: e.solver.add(c >= 0, c <= 0x10FFFF)
            toks = lex_all(lexer, s, None)
            return tuple(toks)
        res = eng.explore(one)
        kinds = {}
        for d, (st, v), sol in res:
            kinds[st] = kinds.get(st, 0) + 1
            if st == 'ok': seqs[v] = seqs.get(v, 0) + 1
            elif st != 'infeasible': print('  ', st, v)
        print('len=%d paths=%d %s distinct token seqs=%d solver_calls=%d solver=%.1fs wall=%.1fs' % (
            n, len(res), kinds, len(seqs), eng.stats['solver_calls'], eng.stats['solver_time'], time.time() - t0))
        if n <= 1: print('   ', sorted(seqs))
