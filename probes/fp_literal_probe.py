"""probe: can QF_FP decide 'a + b/10^k == (a*10^k+b)/10^k' (both correctly rounded IEEE double ops) for small symbolic a, b?
sat = a literal whose two-step value differs from the correctly rounded one (seed C05_r6_1)."""
import sys, time, z3
k = int(sys.argv[1]) if len(sys.argv) > 1 else 2
F = z3.Float64(); rm = z3.RNE()
a = z3.BitVec('a', 16); b = z3.BitVec('b', 16)
d = 10 ** k
s = z3.Solver(); s.set('timeout', 120000)
s.add(z3.ULE(a, 99), z3.ULT(b, d))
fa = z3.fpToFP(rm, z3.ZeroExt(16, a), F) if False else z3.fpSignedToFP(rm, z3.ZeroExt(16, a), F)
fb = z3.fpSignedToFP(rm, z3.ZeroExt(16, b), F)
n = z3.ZeroExt(16, a) * d + z3.ZeroExt(16, b)
fn = z3.fpSignedToFP(rm, n, F)
fd = z3.FPVal(float(d), F)
two = z3.fpAdd(rm, fa, z3.fpDiv(rm, fb, fd))
one = z3.fpDiv(rm, fn, fd)
s.add(z3.Not(z3.fpEQ(two, one)))
t = time.time(); r = s.check(); print(k, r, round(time.time() - t, 1))
if str(r) == 'sat':
    m = s.model(); A = m[a].as_long(); B = m[b].as_long()
    print(A, B, A + B / d, (A * d + B) / d, float('%d.%0*d' % (A, k, B)))
