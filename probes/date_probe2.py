import z3, time, sys
exec(open('date_probe.py').read().split("y,m,d = z3.Ints")[0])
mode = sys.argv[1]
tot=0
if mode == 'month':
    for mm in range(1,13):
        y,d = z3.Ints('y d'); m = z3.IntVal(mm)
        s = z3.Solver(); s.set('timeout', 120000)
        s.add(y >= 1900, y <= 9999, d >= 1, d <= dim(y,m))
        y2,m2,d2 = ord2ymd(ymd2ord(y,m,d))
        s.add(z3.Or(y2 != y, m2 != m, d2 != d))
        t0=time.time(); r=s.check(); dt=time.time()-t0; tot+=dt
        print('month', mm, r, '%.1fs'%dt, flush=True)
elif mode == 'ord':
    # other direction, natural splitting variable: ordinal n symbolic, prove ymd2ord(ord2ymd(n)) == n
    n = z3.Int('n'); s = z3.Solver(); s.set('timeout', 300000)
    s.add(n >= 693596, n <= 3652059)
    y2,m2,d2 = ord2ymd(n)
    s.add(ymd2ord(y2,m2,d2) != n)
    t0=time.time(); r=s.check(); print('ord->ymd->ord', r, '%.1fs'%(time.time()-t0))
elif mode == 'cent':
    # split year into 400-cycle + century + 4-year + year in cycle, as free bounded digits: linearises div/mod
    q400,c,q4,r = z3.Ints('q400 c q4 r'); m,d = z3.Ints('m d')
    y = 400*q400 + 100*c + 4*q4 + r + 1
    s = z3.Solver(); s.set('timeout', 300000)
    s.add(q400>=4, q400<=24, c>=0,c<=3,q4>=0,q4<=24,r>=0,r<=3, y>=1900,y<=9999, m>=1,m<=12,d>=1,d<=dim(y,m))
    y2,m2,d2 = ord2ymd(ymd2ord(y,m,d))
    s.add(z3.Or(y2 != y, m2 != m, d2 != d))
    t0=time.time(); r_=s.check(); print('digit-split', r_, '%.1fs'%(time.time()-t0))
