"""PROBE (design phase, throwaway): bounded model check of ply's real LALR tables
against an operator-precedence (shunting-yard) reference, for every token
sequence of length <= N over the C04 alphabet.  Both machines emit RPN; assert equal.
"""
import sys, time
import z3
import hotxlfp

N = int(sys.argv[1]) if len(sys.argv) > 1 else 5
FIXN = True
MUT = sys.argv[2] if len(sys.argv) > 2 else None

if MUT:
    from hotxlfp.grammarparser import parser as gp
    prec = list(gp.Parser.precedence)
    if MUT == 'swap_pm':      # + - tighter than * /
        prec[3], prec[4] = prec[4], prec[3]
    elif MUT == 'right_minus':
        prec[3] = ('right', 'PLUS', 'MINUS')
    elif MUT == 'uminus_low':
        prec = [('left', 'UMINUS')] + prec[:-1]
    gp.Parser.precedence = tuple(prec)
    import ply.yacc as yacc
    _orig = yacc.yacc
    def _y(**kw):
        kw['write_tables'] = False
        kw['tabmodule'] = 'nonexistent_tab_%s' % MUT
        kw['errorlog'] = yacc.NullLogger()
        return _orig(**kw)
    yacc.yacc = _y

P = hotxlfp.Parser()
Y = P.parser.yacc
prods = Y.productions

# ---- alphabet -------------------------------------------------------------
TERMS = ['$end', 'NUMBER', 'PLUS', 'MINUS', 'MULT', 'DIV', 'AMP', 'GREATER', 'LESS',
         'GREATEREQ', 'LESSEQ', 'EQUAL', 'NOTEQUAL', 'LPAREN', 'RPAREN']
TID = {t: i for i, t in enumerate(TERMS)}
BINOPS = TERMS[2:13]
ARITH = {'PLUS', 'MINUS', 'MULT', 'DIV'}
CMP = set(TERMS[7:13])
SPEC_LEVEL = {'PLUS': 2, 'MINUS': 2, 'MULT': 3, 'DIV': 3, 'AMP': 2}
SPEC_LEVEL.update({c: 1 for c in CMP})
NONTERMS = sorted({p.name for p in prods})
NID = {n: i for i, n in enumerate(NONTERMS)}

# RPN symbol codes: 1 = operand, 10+tid = binary op, 50 = unary minus ; parens emit nothing
def rpn_of_production(p):
    syms = p.str.split('->',1)[1].split()
    if p.name == 'expression' and len(syms) == 3 and syms[0] == 'expression' and syms[2] == 'expression':
        return 10 + TID[syms[1]]
    if p.name == 'expression' and syms == ['MINUS', 'expression']:
        return 50
    if p.name == 'expression' and syms == ['NUMBER']:
        return 1
    return 0

W = 16
class Tab:
    def __init__(self, entries, default):
        self.entries = entries; self.default = default
def table_fn(name, entries, default):
    return Tab(entries, default)
def Select(tab, key):
    e = I(tab.default)
    for k, v in tab.entries.items():
        e = z3.If(key == k, I(v), e)
    return e
z3.Select = Select

NT = len(TERMS)
I = lambda v: z3.BitVecVal(v, W)
act_entries = {}
for s, d in Y.action.items():
    for t, a in d.items():
        if t in TID:
            act_entries[s * 64 + TID[t]] = (a if a > 0 else (0x4000 + (-a))) if a != 0 else 0x3fff  # 0 = accept in ply when reducing S'
goto_entries = {}
for s, d in Y.goto.items():
    for n, g in d.items():
        goto_entries[s * 64 + NID[n]] = g
ERR = 0x7fff
ACT = table_fn('act', act_entries, ERR)
GOTO = table_fn('goto', goto_entries, ERR)
PLEN = table_fn('plen', {i: p.len for i, p in enumerate(prods)}, 0)
PLHS = table_fn('plhs', {i: NID[p.name] for i, p in enumerate(prods) if i}, 0)
PRPN = table_fn('prpn', {i: rpn_of_production(p) for i, p in enumerate(prods)}, 0)

def sel(lst, idx):
    e = lst[-1]
    for i in range(len(lst) - 2, -1, -1):
        e = z3.If(idx == i, lst[i], e)
    return e

def upd(lst, idx, val, cond=True):
    return [z3.If(z3.And(cond, idx == i), val, lst[i]) for i in range(len(lst))]

tok = [z3.BitVec('t%d' % i, W) for i in range(N)]
n = z3.BitVec('n', W)
s = z3.SolverFor('QF_BV')
s.add(z3.UGE(n, 1), z3.ULE(n, N))
for i in range(N):
    s.add(z3.If(z3.ULT(I(i), n), z3.And(z3.UGE(tok[i], 1), z3.ULT(tok[i], NT)), tok[i] == 0))
def tok_at(pos):
    return z3.If(z3.UGE(pos, n), I(0), sel(tok, pos))

# ---- machine 1: LR automaton over the real tables ---------------------------
D = N + 2
T = 4 * N + 4
R = 2 * N + 2
stack = [I(0)] * D
sp = I(0); pos = I(0); done = z3.BoolVal(False); err = z3.BoolVal(False)
out = [I(0)] * R; on = I(0)
for step in range(T):
    st = sel(stack, sp)
    la = tok_at(pos)
    a = z3.Select(ACT, st * 64 + la)
    live = z3.And(z3.Not(done), z3.Not(err))
    is_err = z3.And(live, a == ERR)
    is_acc = z3.And(live, a == 0x3fff)
    is_shift = z3.And(live, z3.ULT(a, 0x3fff))
    is_red = z3.And(live, z3.UGT(a, 0x4000), a != ERR)
    p = a - 0x4000
    plen = z3.Select(PLEN, p)
    base = sp - plen
    g = z3.Select(GOTO, sel(stack, base) * 64 + z3.Select(PLHS, p))
    rp = z3.Select(PRPN, p)
    # overflow of stack bound -> error flag 'bound' (must be unreachable for n<=N)
    nsp = z3.If(is_shift, sp + 1, z3.If(is_red, base + 1, sp))
    nstack = upd(stack, nsp, z3.If(is_shift, a, g), z3.Or(is_shift, is_red))
    emit = z3.And(is_red, rp != 0)
    out = upd(out, on, rp, emit)
    on = z3.If(emit, on + 1, on)
    pos = z3.If(is_shift, pos + 1, pos)
    err = z3.Or(err, is_err)
    done = z3.Or(done, is_acc)
    stack, sp = nstack, nsp
lr_ok = z3.And(done, z3.Not(err))
lr_out, lr_on = out, on
lr_unfinished = z3.And(z3.Not(done), z3.Not(err))

# ---- machine 2: shunting-yard reference with the property's precedence --------
# operator stack entries: 10+tid binary, 50 unary minus, 90 '('
def level(code):
    e = I(0)
    for op in BINOPS:
        e = z3.If(code == 10 + TID[op], I(SPEC_LEVEL[op]), e)
    return z3.If(code == 50, I(4), e)

ops = [I(0)] * D
osp = I(0)            # number of entries
out = [I(0)] * R; on = I(0)
pos = I(0)
bad = z3.BoolVal(False)     # syntactically invalid for the reference
outside = z3.BoolVal(False)  # outside the property's domain (mixing &, two comparisons)
fin = z3.BoolVal(False)
expect_operand = z3.BoolVal(True)
# region bookkeeping, one slot per paren depth
kind = [I(0)] * D      # 0 none, 1 arithmetic, 2 amp
ncmp = [I(0)] * D
depth = I(0)
T2 = 3 * N + 4
for step in range(T2):
    live = z3.And(z3.Not(fin), z3.Not(bad))
    la = tok_at(pos)
    top = z3.If(z3.UGT(osp, 0), sel(ops, osp - 1), I(0))
    is_end = la == 0
    is_num = la == TID['NUMBER']
    is_lp = la == TID['LPAREN']
    is_rp = la == TID['RPAREN']
    is_minus = la == TID['MINUS']
    is_bin = z3.And(z3.UGE(la, 2), z3.ULE(la, 12))
    unary = z3.And(is_minus, expect_operand)
    binary = z3.And(is_bin, z3.Not(expect_operand))
    lvl_la = level(10 + la)
    # pop condition: top is an operator (not paren) and (binary incoming with level(top) >= level(la)), or closing
    top_is_op = z3.And(z3.UGT(osp, 0), top != 90)
    want_pop = z3.And(live, top_is_op,
                      z3.Or(z3.And(binary, z3.UGE(level(top), lvl_la)),
                            z3.And(is_rp, z3.Not(expect_operand)),
                            z3.And(is_end, z3.Not(expect_operand))))
    # actions (exactly one per step)
    do_pop = want_pop
    do_num = z3.And(live, z3.Not(do_pop), is_num, expect_operand)
    do_lp = z3.And(live, z3.Not(do_pop), is_lp, expect_operand)
    do_un = z3.And(live, z3.Not(do_pop), unary)
    do_bin = z3.And(live, z3.Not(do_pop), binary)
    do_rp = z3.And(live, z3.Not(do_pop), is_rp, z3.Not(expect_operand), z3.UGT(osp, 0), top == 90)
    do_end = z3.And(live, z3.Not(do_pop), is_end, z3.Not(expect_operand), osp == 0)
    any_act = z3.Or(do_pop, do_num, do_lp, do_un, do_bin, do_rp, do_end)
    bad = z3.Or(bad, z3.And(live, z3.Not(any_act)))
    # outputs
    emit = z3.Or(do_pop, do_num)
    out = upd(out, on, z3.If(do_pop, top, I(1)), emit)
    on = z3.If(emit, on + 1, on)
    # operator stack
    push = z3.Or(do_lp, do_un, do_bin)
    pushed = z3.If(do_lp, I(90), z3.If(do_un, I(50), 10 + la))
    ops = upd(ops, osp, pushed, push)
    osp = z3.If(push, osp + 1, z3.If(z3.Or(do_pop, do_rp), osp - 1, osp))
    # region bookkeeping
    k_here = sel(kind, depth); c_here = sel(ncmp, depth)
    la_arith = z3.Or(*[la == TID[o] for o in ARITH])
    la_amp = la == TID['AMP']
    la_cmp = z3.Or(*[la == TID[o] for o in CMP])
    newk = z3.If(la_arith, I(1), z3.If(la_amp, I(2), k_here))
    outside = z3.Or(outside,
                    z3.And(do_bin, la_arith, k_here == 2), z3.And(do_bin, la_amp, k_here == 1),
                    z3.And(do_bin, la_cmp, z3.UGE(c_here, 1)))
    kind = upd(kind, depth, newk, do_bin)
    ncmp = upd(ncmp, depth, c_here + 1, z3.And(do_bin, la_cmp))
    kind = upd(kind, depth + 1, I(0), do_lp)
    ncmp = upd(ncmp, depth + 1, I(0), do_lp)
    depth = z3.If(do_lp, depth + 1, z3.If(do_rp, depth - 1, depth))
    pos = z3.If(z3.Or(do_num, do_lp, do_un, do_bin, do_rp), pos + 1, pos)
    expect_operand = z3.If(z3.Or(do_num, do_rp), False, z3.If(z3.Or(do_lp, do_un, do_bin), True, expect_operand))
    fin = z3.Or(fin, do_end)
ref_ok = z3.And(fin, z3.Not(bad))
ref_unfinished = z3.And(z3.Not(fin), z3.Not(bad))
ref_out, ref_on = out, on

same = z3.And(lr_on == ref_on, *[lr_out[i] == ref_out[i] for i in range(R)])

def show(m):
    k = m.eval(n).as_long()
    return ' '.join(TERMS[m.eval(tok[i]).as_long()] for i in range(k))

def query(name, *extra):
    s.push(); s.add(*extra)
    if FIXN: s.add(n == N)
    t0 = time.time(); r = s.check(); dt = time.time() - t0
    print('%-34s %-7s %.1fs' % (name, r, dt), show(s.model()) if r == z3.sat else '')
    if r == z3.sat and name.startswith('VIOL'):
        m = s.model()
        print('   lr :', [m.eval(x).as_long() for x in lr_out][:m.eval(lr_on).as_long()], m.eval(lr_ok))
        print('   ref:', [m.eval(x).as_long() for x in ref_out][:m.eval(ref_on).as_long()], m.eval(ref_ok))
    s.pop()
    return r

print('N =', N, 'mutant =', MUT)
query('unwinding: LR unfinished', lr_unfinished)
query('unwinding: ref unfinished', ref_unfinished)
query('reach: ref accepts, in domain', ref_ok, z3.Not(outside), n == N)
query('VIOL: in-domain, differ', ref_ok, z3.Not(outside), z3.Not(z3.And(lr_ok, same)))
query('info: LR accepts, ref rejects', lr_ok, z3.Not(ref_ok))
