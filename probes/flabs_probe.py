"""PROBE: float error-bound abstraction (fl as UF + per-application axioms) on the date-serial code.
Hand transcription of utils.serialize_date / parse_date for the probe only (engine S will execute the real source)."""
import z3, time, sys
R = z3.RealSort()
fl_uf = z3.Function('fl', R, R)
EPS = z3.Q(1, 2**53)
AX = []
def absr(x): return z3.If(x >= 0, x, -x)
def fl(x):
    r = fl_uf(x)
    AX.append(absr(r - x) <= EPS * absr(x))
    AX.append(z3.Implies(z3.And(z3.IsInt(x), absr(x) <= 2**53), r == x))
    AX.append(z3.Implies(x >= 0, r >= 0)); AX.append(z3.Implies(x <= 0, r <= 0))
    return r
D1900 = -25567            # days 1970-01-01 -> 1900-01-01
d1900_ms = z3.RealVal(D1900 * 86400000)
BOUND = z3.RealVal(-2203891200000)
def serialize(days, ms):           # days since 1970 (Int), ms of day (Int)  -> serial (Real 'float')
    us = (z3.ToReal(days) * 86400 * 1000 + z3.ToReal(ms)) * 1000      # exact integer microseconds
    secs = fl(us / 1000000)                                          # timedelta.total_seconds(): int/int true division
    date = fl(secs * 1000)
    diff = fl(date - d1900_ms)
    q = fl(diff / 86400000)
    return z3.If(z3.And(days == D1900, ms == 0), z3.RealVal(0),
                 z3.If(date <= BOUND, fl(q + 1), fl(q + 2)))
def parse(serial):                 # -> microseconds since 1970 as Int (relation), for serial >= 1
    off = z3.If(serial <= 60, fl(serial - 1), fl(serial - 2))
    secs = fl(z3.RealVal(D1900 * 86400) + fl(off * 86400))
    us = z3.Int('us_%d' % len(AX))
    AX.append(absr(z3.ToReal(us) - secs * 1000000) <= z3.Q(1, 2) + z3.Q(1, 1000))   # timedelta(seconds=float) rounds to microseconds
    return us
def run(name, build, timeout=300000):
    global AX; AX = []
    s = z3.Solver(); s.set('timeout', timeout)
    goal = build(s)
    s.add(*AX); s.add(goal)
    t0 = time.time(); r = s.check(); dt = time.time() - t0
    m = s.model() if r == z3.sat else None
    print('%-62s %-7s %.1fs' % (name, r, dt), ({str(d): m[d] for d in m.decls() if str(d) in ('days','ms','days2','n')} if m else ''))
days, ms, days2 = z3.Ints('days ms days2')
HI = 2932896   # 9999-12-31
def dom(s, d=days, m=ms):
    s.add(d >= D1900, d <= HI, m >= 0, m < 86400000)
# 1. whole days from 1900-03-01 (days >= -25508): serial == days + 25569 exactly
def q1(s):
    dom(s); s.add(ms == 0, days >= -25508)
    return serialize(days, ms) != z3.ToReal(days) + 25569
run('whole-day serial = days since 1899-12-30 (from 1 Mar 1900)', q1)
# 1b. same claim from 1900-03-01 *inclusive* is what the property says; current code should fail exactly at the boundary day
def q1b(s):
    dom(s); s.add(ms == 0, days >= -25509)
    return serialize(days, ms) != z3.ToReal(days) + 25569
run('  ... including the day before (expect sat: boundary day)', q1b)
# 2. strict monotonicity on whole days over the full range
def q2(s):
    dom(s); dom(s, days2, ms); s.add(ms == 0, days < days2)
    return z3.Not(serialize(days, ms) < serialize(days2, ms))
run('whole days strictly monotone 1900-01-01..9999-12-31 (expect sat)', q2)
# 3. round trip at millisecond resolution within 0.5 ms, from 1900-03-02 on
def q3(s):
    dom(s); s.add(days >= -25507)
    us0 = (days * 86400000 + ms) * 1000
    us1 = parse(serialize(days, ms))
    return z3.Or(us1 - us0 >= 500, us0 - us1 >= 500)
run('round trip within 0.5 ms (from 2 Mar 1900)', q3, 600000)
# 4. integer serial n in 61..2958465: serialize(parse(n)) == n  (parse gives whole day exactly)
def q4(s):
    n = z3.Int('n'); s.add(n >= 61, n <= 2958465)
    us = parse(z3.ToReal(n))
    d = z3.Int('dd'); s.add(us == d * 86400000000)       # candidate must be whole day; else violation
    return serialize(d, z3.IntVal(0)) != z3.ToReal(n)
run('serial -> date -> serial for integer serials 61..2958465', q4)
