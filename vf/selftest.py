"""Validation of the encoding (run by setup and usable stand-alone):
 1. translator validation - the repository's tests through the instrumenting loader (with and without ply);
 2. model validation - every proxy operation / regex / datetime model evaluated on concrete and boundary inputs
    (seeded by VERIF_SEED) and compared with CPython's real result."""
import datetime
import fnmatch
import os
import random
import re
import sys
import time
import z3

from . import engine as E
from . import loader, models, spec, symre, dates, runner
from .values import SymInt, SymBool, SymStr, SymFloat, mkstr


def _sym_of(e, v, name):
    """a symbolic twin of a concrete value, pinned to it by a constraint"""
    if isinstance(v, bool):
        b = e.fresh_bool(name)
        e.add(b.z == v)
        return b
    if isinstance(v, int):
        x = e.fresh_int(name)
        e.add(x.z == v)
        return x
    if isinstance(v, float) and v == v and abs(v) < 2.0 ** 40 and v != int(v) and (v * 16) == int(v * 16):
        # a dyadic fraction: symbolic twin with the exact representation num / 2^k
        n, d = v.as_integer_ratio()
        x = e.fresh_dyadic(name, d.bit_length() - 1)
        e.add(x.dy[0] == n)
        return x
    if isinstance(v, str):
        s = e.fresh_str(name, len(v))
        for c, ch in zip(s.cps, v):
            e.add(c == ord(ch))
        return s if len(v) else ''
    if isinstance(v, datetime.datetime):
        o = z3.Int(name + '_o')
        u = z3.Int(name + '_u')
        e.add(o == v.toordinal(), u == ((v.hour * 60 + v.minute) * 60 + v.second) * 10 ** 6 + v.microsecond)
        return dates.SymDateTime(o, u)
    return v


def _run(f, args):
    try:
        return ('ok', f(*args))
    except Exception as ex:
        return ('exc', type(ex).__name__)


def differential(name, f_sym, f_real, arglists):
    """f_sym runs on symbolic twins inside the engine; f_real on the concrete values."""
    bad = []
    n = 0
    for args in arglists:
        n += 1
        want = _run(f_real, args)
        got_box = {}

        def one(e):
            sargs = [_sym_of(e, a, 'a%d' % i) for i, a in enumerate(args)]
            r = _run(f_sym, sargs)
            if r[0] == 'ok':
                m = e.model()
                r = ('ok', spec.concretize(r[1], m))
            return r
        eng = E.Engine(max_decisions=5000)
        res = eng.explore(one)
        oks = [r for r in res if r.status == 'ok']
        if len(oks) != 1 or any(r.status not in ('ok', 'infeasible') for r in res):
            if any(r.status == 'unmodelled' for r in res):
                continue     # declared unmodelled is never a wrong answer
            bad.append((args, want, [(r.status, r.value, r.detail) for r in res]))
            continue
        got = oks[0].value
        if isinstance(got[1], (list, tuple)) and got[0] == 'ok':
            got = ('ok', type(want[1])(got[1]) if isinstance(want[1], (list, tuple)) else got[1])
        if not _same(got, want):
            if name in ('str upper', 'str lower') and got[0] == want[0] == 'ok' and _same_modulo_nonascii(got[1], want[1]):
                continue
            bad.append((args, want, got))
    return name, n, bad


def _same_modulo_nonascii(a, b):
    """case-mapped strings: the model over-approximates the image of a non-ASCII cased character by 'some non-ASCII
    character', so only the ASCII skeleton and the length must agree"""
    if not (isinstance(a, str) and isinstance(b, str)) or len(a) != len(b):
        return False
    return all((x == y) or (ord(x) >= 128 and ord(y) >= 128) for x, y in zip(a, b))


def _same(a, b):
    """equality, except that abstractly-rounded floats only need to agree to relative 2^-51"""
    if isinstance(a, float) and isinstance(b, float):
        if a != a or b != b:
            return (a != a) and (b != b)
        return a == b or abs(a - b) <= abs(b) * 2.0 ** -51
    if isinstance(a, (list, tuple)) and isinstance(b, (list, tuple)):
        return len(a) == len(b) and all(_same(x, y) for x, y in zip(a, b))
    return a == b and type(a) == type(b) or (a == b and not isinstance(a, bool) and not isinstance(b, bool))


def model_validation(seed, verbose=False):
    rnd = random.Random(seed)
    ints = [0, 1, -1, 2, -2, 7, -7, 9, 10, 11, 25, 26, 27, 99, 100, 255, 256, 4095, 65535, 10 ** 6, -10 ** 6, 2 ** 31, 2 ** 53,
            2 ** 53 + 1, -2 ** 40, 549755813887, 549755813888] + [rnd.randint(-10 ** 9, 10 ** 9) for _ in range(8)]
    small = [-3, -1, 0, 1, 2, 3, 5]
    strs = ['', 'a', 'A', 'ab', 'aB', 'abc', ' a ', '  a  b ', 'a\tb', '\n', 'zZ', 'hello world', '12', '-12', '+5', '1_0', ' 7 ',
            'abcabc', 'aaa', 'xAy', "o'neil mc-x", 'é', '中文', '$A$1', 'A1\n', '3.5', '.5', '5.', 'inf', 'nan', '1e2', '--1',
            '٣', 'a b  c', '\x01a\x1f', 'AbC dEf']
    for _ in range(10):
        strs.append(''.join(rnd.choice('ab AB*?.$1\n\t') for _ in range(rnd.randint(0, 5))))
    results = []
    ii = [(a, b) for a in ints[:14] for b in small]
    results.append(differential('int +', lambda a, b: a + b, lambda a, b: a + b, ii))
    results.append(differential('int -', lambda a, b: a - b, lambda a, b: a - b, ii))
    results.append(differential('int *', lambda a, b: a * b, lambda a, b: a * b, ii))
    results.append(differential('int //', lambda a, b: a // b, lambda a, b: a // b, ii))
    results.append(differential('int %', lambda a, b: a % b, lambda a, b: a % b, ii))
    results.append(differential('int / -> int()', lambda a, b: models.m_int(a / b), lambda a, b: int(a / b), [(a, b) for a in ints[:20] for b in (1, 2, 3, 7, -4, 1000, 0)]))
    results.append(differential('int cmp', lambda a, b: (a < b, a <= b, a == b, a != b), lambda a, b: (a < b, a <= b, a == b, a != b), ii))
    results.append(differential('abs/neg', lambda a: (abs(a), -a), lambda a: (abs(a), -a), [(a,) for a in ints]))
    results.append(differential('round', lambda a, k: models.m_round(a, k), round, [(a, k) for a in ints for k in (-3, -2, -1, 0, 1)]))
    results.append(differential('str(int)', models.m_str, str, [(a,) for a in ints]))
    results.append(differential('hex(int)', models.m_hex, hex, [(a,) for a in ints]))
    rt = ['0', '7', '10', '007', '+5', ' 12 ', '1_0', '123456789012', '-3', '00', '90', '٣']
    results.append(differential('str(int(str)+k)', lambda s, k: models.m_str(models.m_int(s) + k), lambda s, k: str(int(s) + k), [(s, k) for s in rt for k in (0, 1, -1)]))
    results.append(differential('str(int(str)-1+1)', lambda s: models.m_str((models.m_int(s) - 1) + 1), lambda s: str((int(s) - 1) + 1), [(s,) for s in rt]))
    results.append(differential('int(str)', models.m_int, int, [(s,) for s in strs]))
    results.append(differential('int(str,16)', lambda s: models.m_int(s, 16), lambda s: int(s, 16), [(s,) for s in strs + ['ff', 'FF', '1g', '7f', 'FFFFFFFFFF']]))
    results.append(differential('float(str)', lambda s: models.m_float(s), float, [(s,) for s in strs]))
    import math
    dys = [0.5, -0.5, 1.5, -2.5, 0.25, -0.75, 3.125, 1024.5, -7.0625, 2.0 ** 39 + 0.5, -(2.0 ** 39) - 0.25, 0.0625, 6.5, -1.25]
    others = [1, -1, 2, 3, -4, 10, 0.5, -0.25, 1.5, 2.5, 0.125, 7.0, -3.0, 100]
    dd = [(a, b) for a in dys for b in others]
    for nm, f in (('+', lambda a, b: a + b), ('-', lambda a, b: a - b), ('*', lambda a, b: a * b), ('/', lambda a, b: a / b),
                  ('r-', lambda a, b: b - a), ('r/', lambda a, b: b / a), ('//', lambda a, b: a // b), ('%', lambda a, b: a % b)):
        results.append(differential('dyadic ' + nm, f, f, dd))
    results.append(differential('dyadic cmp', lambda a, b: (a < b, a == b, a >= b), lambda a, b: (a < b, a == b, a >= b), dd))
    results.append(differential('dyadic floor/ceil/trunc', lambda a: (math.floor(a), math.ceil(a), models.m_int(a)) if False else
                                (models.sym_call(math.floor, a), models.sym_call(math.ceil, a), models.m_int(a), abs(a), -a),
                                lambda a: (math.floor(a), math.ceil(a), int(a), abs(a), -a), [(a,) for a in dys]))
    results.append(differential('dyadic ceil(a/b)*b', lambda a, b: models.sym_call(math.ceil, a / b) * b, lambda a, b: math.ceil(a / b) * b, dd))
    results.append(differential('dyadic int(a/b)', lambda a, b: models.m_int(a / b), lambda a, b: int(a / b), dd))
    results.append(differential('dyadic round', lambda a, k: models.m_round(a, k), round,
                                [(a, k) for a in dys + [0.125, 0.375, 2.675, 1.005, -0.5625, 12345.6875] for k in (-2, -1, 0, 1, 2, 3)]))
    results.append(differential('dyadic roundup kernel', lambda a, k: models.sym_call(math.ceil, abs(a) * 10 ** k) / 10 ** k,
                                lambda a, k: math.ceil(abs(a) * 10 ** k) / 10 ** k, [(a, k) for a in dys for k in (0, 1, 2, 3)]))
    try:
        from dateutil.parser import parse as _du
        isos = ['2020-10-12', '1900-01-01', '9999-12-31', '2000-02-29', '2020-10-12 10:04', '2020-10-12T10:04', '2020-10-12T10:04:05',
                '2020-10-12 23:59:59', '0001-01-01', '2021-12-31T00:00', '1999-07-04 07:08:09', '2400-02-29T12:00:00']
        for _ in range(12):
            y, m = rnd.randint(1900, 9999), rnd.randint(1, 12)
            dd = rnd.randint(1, 28)
            isos.append('%04d-%02d-%02d%s%02d:%02d:%02d' % (y, m, dd, rnd.choice(' T'), rnd.randint(0, 23), rnd.randint(0, 59), rnd.randint(0, 59)))
        results.append(differential('dateutil ISO contract', lambda t: dates._dateutil_stub(t), lambda t: _du(t), [(t,) for t in isos]))
    except ImportError:
        pass
    expforms = ['1e2', '5E0', '9e9', '1.5e-3', '0.0E-9', '7.25e+2', ' 3e1 ', '-4e-2', '+2.5E3', '1e', 'e5', '1e+', '1.e2', '.5e1', '1e2.0',
                '12345.678e-4', '0e0', '9.9E-9', '1ee2', '1e-22', '123456789012e3']
    results.append(differential('float(exponent text)', lambda s: models.m_float(s), float, [(s,) for s in expforms]))
    fmts = [('%s', 12), ('%d', -7), ('a%db', 10 ** 17), ('%.15g', 123456789012345), ('%.15g', -999999999999999), ('%.15g', 0),
            ('%.3g', 999), ('%.3g', -12), ('%i%%', 5), ('%s-%s', 3), ('%d', 'x'), ('%.6g', 123456)]
    for f, x in fmts:
        results.append(differential('str %% int (%s)' % f, (lambda f: lambda x: models.sym_strmod(f, x))(f), (lambda f: lambda x: f % x)(f), [(x,)]))
    results.append(differential('chr', models.m_chr, chr, [(a,) for a in [0, 65, 0x10FFFF, 0x110000, -1, 31, 32, 127]]))
    results.append(differential('ord', models.m_ord, ord, [(s,) for s in ['a', '中', '', 'ab']]))
    results.append(differential('bool&1', lambda a: a & 1, lambda a: a & 1, [(a,) for a in ints]))
    # strings
    ss = [(a, b) for a in strs[:22] for b in ['', 'a', 'ab', ' ', 'b', 'A']]
    results.append(differential('str +', lambda a, b: a + b, lambda a, b: a + b, ss))
    results.append(differential('str cmp', lambda a, b: (a < b, a == b, a >= b), lambda a, b: (a < b, a == b, a >= b), [(a, b) for a in strs[:16] for b in strs[:16]]))
    results.append(differential('str find', lambda a, b: models.sym_call(a.find, b), lambda a, b: a.find(b), ss))
    results.append(differential('str in', lambda a, b: models.sym_in(b, a, False), lambda a, b: b in a, ss))
    results.append(differential('str replace', lambda a, b: models.sym_call(a.replace, b, 'XY'), lambda a, b: a.replace(b, 'XY'), ss))
    results.append(differential('str replace2', lambda a, b: models.sym_call(a.replace, 'a', b), lambda a, b: a.replace('a', b), ss))
    results.append(differential('str split', lambda a, b: models.sym_call(a.split, b), lambda a, b: a.split(b), [x for x in ss if x[1]]))
    results.append(differential('str upper', lambda a: a.upper(), lambda a: a.upper(), [(s,) for s in strs]))
    results.append(differential('str lower', lambda a: a.lower(), lambda a: a.lower(), [(s,) for s in strs]))
    results.append(differential('str title', lambda a: a.title(), lambda a: a.title(), [(s,) for s in strs]))
    results.append(differential('str strip', lambda a: (a.strip(), a.strip(' ')), lambda a: (a.strip(), a.strip(' ')), [(s,) for s in strs]))
    results.append(differential('str slice', lambda a, i, j: (models.sym_getitem(a, slice(i, j)), models.sym_getitem(a, slice(None, i)), models.sym_getitem(a, slice(-i, None))),
                                lambda a, i, j: (a[i:j], a[:i], a[-i:]), [(a, i, j) for a in strs[:12] for i in small for j in (0, 1, 2, 9)]))
    results.append(differential('str index', lambda a, i: models.sym_getitem(a, i), lambda a, i: a[i], [(a, i) for a in strs[:12] for i in small]))
    results.append(differential('str rjust', lambda a, n: a.rjust(n, '0'), lambda a, n: a.rjust(n, '0'), [(a, n) for a in strs[:8] for n in (0, 1, 3, 6)]))
    results.append(differential('str join', lambda a, b: models.sym_call(','.join, [a, b, a]), lambda a, b: ','.join([a, b, a]), ss[:40]))
    results.append(differential('list index', lambda i: models.sym_getitem([10, 20, 30], i), lambda i: [10, 20, 30][i], [(i,) for i in range(-5, 5)]))
    # regex: the repository's own patterns + shapes it uses
    pats = [r'^([$])?([A-Za-z]+)([$])?([0-9]+)$', r'^([$])?([A-Za-z]+)([$])?([0-9]+)\Z', r'(?P<op>[\<\>\=]*)(?P<val>.+)',
            r' {2,}', r'^M{0,4}(CM|CD|D?C{0,3})(XC|XL|L?X{0,3})(IX|IV|V?I{0,3})$', r'[MDLV]|C[MD]?|X[CL]?|I[XV]?',
            r'\s+', r'"(\\["]|[^"])*"|\'(\\[\']|[^\'])*\'', r'([A-Za-z]{1,}[A-Za-z_0-9\.]+(?=[(]))|([A-Za-z\.]+(?=[(]))',
            r'\#[A-Z0-9\/]+(\!|\?)?', r'(\$[A-Za-z]+[0-9]+)|([A-Za-z]+\$[0-9]+)']
    rstrs = strs + ['$A$1', 'A1', 'a1\n', '>=5', '<>x', '=', 'MCMXC', 'MIM', 'IIII', 'XLII', '"a\\"b"', "'x'", 'SUM(', 'A.B(', '#DIV/0!', '#N/A', '#a', '$A1', 'A$1', 'a  b   c', '>', '<=\n3']

    def symrx(kind):
        def f(pat, s):
            rx = re.compile(pat)
            if kind == 'match':
                m = symre.p_match(rx, s)
                return None if m is None else (m.end(), m.groups(), m.lastindex)
            if kind == 'search':
                m = symre.p_search(rx, s)
                return None if m is None else (m.span(), m.groups())
            if kind == 'sub':
                return symre.p_sub(rx, '-', s)
            if kind == 'finditer':
                return [m.group() for m in symre.p_finditer(rx, s)]
        return f

    def realrx(kind):
        def f(pat, s):
            rx = re.compile(pat)
            if kind == 'match':
                m = rx.match(s)
                return None if m is None else (m.end(), m.groups(), m.lastindex)
            if kind == 'search':
                m = rx.search(s)
                return None if m is None else (m.span(), m.groups())
            if kind == 'sub':
                return rx.sub('-', s)
            if kind == 'finditer':
                return [m.group() for m in rx.finditer(s)]
        return f
    pairs = [(p, s) for p in pats for s in rstrs]
    for kind in ('match', 'search', 'sub', 'finditer'):
        results.append(differential('regex ' + kind, symrx(kind), realrx(kind), pairs))
    results.append(differential('fnmatch', symre.glob_match, fnmatch.fnmatch,
                                [(a, b) for a in ['', 'a', 'ab', 'abc', 'a*', 'b\n'] for b in ['*', '?', 'a*', '*b', 'a?c', '??', 'ab', '', '*a*', 'a**']]))
    # dates
    ds = [datetime.datetime(1900, 1, 1), datetime.datetime(1900, 2, 28), datetime.datetime(1900, 3, 1), datetime.datetime(1999, 12, 31, 23, 59, 59),
          datetime.datetime(2000, 2, 29, 12), datetime.datetime(2100, 3, 1), datetime.datetime(9999, 12, 31), datetime.datetime(1, 1, 1),
          datetime.datetime(2400, 12, 31), datetime.datetime(2024, 2, 29, 1, 2, 3, 4000)]
    for _ in range(20):
        ds.append(datetime.datetime.fromordinal(rnd.randint(1, dates.MAXORD)) + datetime.timedelta(milliseconds=rnd.randint(0, 86399999)))
    comp = lambda d: (d.year, d.month, d.day, d.hour, d.minute, d.second, d.microsecond, d.weekday())
    results.append(differential('date components', comp, comp, [(d,) for d in ds]))
    results.append(differential('date diff', lambda a, b: ((a - b).total_seconds(), a < b, a == b), lambda a, b: ((a - b).total_seconds(), a < b, a == b),
                                [(a, b) for a in ds[:10] for b in ds[:10]]))
    results.append(differential('date + td', lambda a, s: a + models.sym_call(datetime.timedelta, seconds=s), lambda a, s: a + datetime.timedelta(seconds=s),
                                [(a, s) for a in ds[:12] for s in (0, 1, 86400, -86400, 86399, 10 ** 9, -10 ** 12, 3 * 10 ** 11)]))
    ymds = [(1900, 2, 29), (2000, 2, 29), (2023, 4, 31), (0, 1, 1), (10000, 1, 1), (2020, 13, 1), (2020, 0, 1), (2020, 12, 31), (1900, 3, 1), (2021, 2, 0)]
    for _ in range(20):
        ymds.append((rnd.randint(1, 9999), rnd.randint(1, 12), rnd.randint(1, 31)))
    results.append(differential('datetime()', lambda y, m, d: models.sym_call(datetime.datetime, y, m, d), datetime.datetime, ymds))
    results.append(differential('datetime(hms)', lambda h, m, s: models.sym_call(datetime.datetime, 1900, 1, 1, h, m, s), lambda h, m, s: datetime.datetime(1900, 1, 1, h, m, s),
                                [(0, 0, 0), (23, 59, 59), (24, 0, 0), (1, 60, 0), (1, 1, 60), (-1, 0, 0), (12, 30, 15)]))
    total = 0
    nbad = 0
    for name, n, bad in results:
        total += n
        if bad:
            nbad += len(bad)
            print('MODEL MISMATCH %s: %d of %d' % (name, len(bad), n))
            for b in bad[:4]:
                print('   ', repr(b)[:400])
        elif verbose:
            print('ok %-20s %d' % (name, n))
    return total, nbad


def main():
    t0 = time.time()
    seed = int(os.environ.get('VERIF_SEED', '0') or 0)
    scratch = loader.make_scratch()
    tv = runner.translator_validation(scratch)
    print('translator validation:', tv)
    total, nbad = model_validation(seed, verbose='-v' in sys.argv)
    print('model validation: %d comparisons, %d mismatches (%.1fs)' % (total, nbad, time.time() - t0))
    ok = all(v['exit'] == 0 for v in tv.values()) and nbad == 0
    return 0 if ok else 2


if __name__ == '__main__':
    sys.exit(main())
