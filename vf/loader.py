"""Scratch copy of /repo + instrumenting import hook.

Every hotxlfp module (and, on request, ply) is read from the scratch copy, its AST goes through a
small rewriting pass (identity on concrete values) and CPython executes the result natively.
"""
import ast
import atexit
import importlib
import importlib.abc
import importlib.util
import os
import shutil
import subprocess
import sys
import tempfile

REPO = os.environ.get('VERIF_REPO', '/repo')
PLY_DIR = None


def make_scratch():
    """Copy the working tree of /repo (tracked + untracked, no .git) to a temp dir outside /repo and /verif."""
    d = tempfile.mkdtemp(prefix='hotxlfp_verif_')
    dst = os.path.join(d, 'repo')
    shutil.copytree(REPO, dst, ignore=shutil.ignore_patterns('.git', '__pycache__', '*.pyc', '*.egg-info', '.pytest_cache'))
    atexit.register(shutil.rmtree, d, True)
    return dst


def source_digest(root):
    import hashlib
    h = hashlib.sha256()
    for dp, dn, fn in sorted(os.walk(os.path.join(root, 'hotxlfp'))):
        dn.sort()
        for f in sorted(fn):
            if f.endswith('.py'):
                p = os.path.join(dp, f)
                h.update(p[len(root):].encode())
                h.update(open(p, 'rb').read())
    return h.hexdigest()[:16]


class Instrument(ast.NodeTransformer):
    def _name(self, n):
        return ast.Name(n, ast.Load())

    def visit_Call(self, node):
        self.generic_visit(node)
        f = node.func
        if isinstance(f, ast.Name) and f.id in ('super', 'locals', 'globals', 'vars', 'dir', 'eval', 'exec'):
            return node
        if (isinstance(f, ast.Attribute) and isinstance(f.value, ast.Name)
                and f.value.id in ('lex', 'yacc') and f.attr in ('lex', 'yacc')):
            return node   # ply builders inspect the caller frame; they never receive symbolic values
        if isinstance(f, ast.Attribute) and f.attr == '_getframe':
            return node
        if isinstance(f, ast.Name) and f.id == 'get_caller_module_dict':
            return node   # ply: frame-depth sensitive
        if any(isinstance(a, ast.Starred) for a in node.args) or any(k.arg is None for k in node.keywords):
            pass
        return ast.copy_location(ast.Call(func=self._name('__sym_call__'), args=[f] + node.args,
                                          keywords=node.keywords), node)

    def visit_Subscript(self, node):
        self.generic_visit(node)
        if isinstance(node.ctx, ast.Load):
            return ast.copy_location(ast.Call(func=self._name('__sym_getitem__'), args=[node.value, node.slice],
                                              keywords=[]), node)
        return node

    def visit_Assign(self, node):
        self.generic_visit(node)
        if len(node.targets) == 1 and isinstance(node.targets[0], ast.Subscript):
            t = node.targets[0]
            call = ast.Call(func=self._name('__sym_setitem__'), args=[t.value, t.slice, node.value], keywords=[])
            return ast.copy_location(ast.Expr(call), node)
        return node

    def visit_Compare(self, node):
        self.generic_visit(node)
        if len(node.ops) == 1:
            op = node.ops[0]
            if isinstance(op, (ast.In, ast.NotIn)):
                return ast.copy_location(ast.Call(func=self._name('__sym_in__'),
                                                  args=[node.left, node.comparators[0], ast.Constant(isinstance(op, ast.NotIn))],
                                                  keywords=[]), node)
            if isinstance(op, (ast.Is, ast.IsNot)):
                return ast.copy_location(ast.Call(func=self._name('__sym_is__'),
                                                  args=[node.left, node.comparators[0], ast.Constant(isinstance(op, ast.IsNot))],
                                                  keywords=[]), node)
        return node

    def visit_BinOp(self, node):
        self.generic_visit(node)
        if isinstance(node.op, ast.Mod) and isinstance(node.left, ast.Constant) and isinstance(node.left.value, str):
            return ast.copy_location(ast.Call(func=self._name('__sym_strmod__'), args=[node.left, node.right], keywords=[]), node)
        return node

    _fdepth = 0

    def visit_FunctionDef(self, node):
        self._fdepth += 1
        try:
            self.generic_visit(node)
        finally:
            self._fdepth -= 1
        return node

    visit_AsyncFunctionDef = visit_FunctionDef

    def visit_Lambda(self, node):
        self._fdepth += 1
        try:
            self.generic_visit(node)
        finally:
            self._fdepth -= 1
        return node

    def _tick(self, node):
        if self._fdepth == 0:
            return      # module-level loops (table initialisation at import time) are not part of any evaluation
        t = ast.Expr(ast.Call(func=self._name('__sym_tick__'), args=[], keywords=[]))
        node.body.insert(0, ast.copy_location(t, node))

    def visit_While(self, node):
        self.generic_visit(node)
        self._tick(node)
        return node

    def visit_For(self, node):
        self.generic_visit(node)
        self._tick(node)
        return node

    def visit_JoinedStr(self, node):
        self.generic_visit(node)
        return node


class _Loader(importlib.abc.Loader):
    def __init__(self, path, instrument=True):
        self.path = path
        self.instrument = instrument

    def create_module(self, spec):
        return None

    def exec_module(self, module):
        from . import models
        src = open(self.path, encoding='utf-8').read()
        tree = ast.parse(src, self.path)
        if self.instrument:
            tree = ast.fix_missing_locations(Instrument().visit(tree))
        code = compile(tree, self.path, 'exec', dont_inherit=True)
        d = module.__dict__
        d['__sym_call__'] = models.sym_call
        d['__sym_getitem__'] = models.sym_getitem
        d['__sym_setitem__'] = models.sym_setitem
        d['__sym_in__'] = models.sym_in
        d['__sym_is__'] = models.sym_is
        d['__sym_tick__'] = models.sym_tick
        d['__sym_strmod__'] = models.sym_strmod
        exec(code, d)


class _Finder(importlib.abc.MetaPathFinder):
    def __init__(self, roots, instrument=True):
        self.roots = roots   # {top-level package name: directory containing it}
        self.instrument = instrument

    def find_spec(self, name, path, target=None):
        top = name.split('.')[0]
        root = self.roots.get(top)
        if root is None:
            return None
        rel = name.replace('.', '/')
        pkg = os.path.join(root, rel, '__init__.py')
        mod = os.path.join(root, rel + '.py')
        if os.path.exists(pkg):
            return importlib.util.spec_from_file_location(name, pkg, loader=_Loader(pkg, self.instrument),
                                                          submodule_search_locations=[os.path.dirname(pkg)])
        if os.path.exists(mod):
            return importlib.util.spec_from_file_location(name, mod, loader=_Loader(mod, self.instrument))
        return None


_installed = None


def ply_root():
    import importlib.util as u
    spec = u.find_spec('ply')
    return os.path.dirname(os.path.dirname(spec.origin))


def install(scratch, with_ply=False, instrument=True):
    """Route imports of hotxlfp (and optionally ply) through the instrumenting loader."""
    global _installed
    roots = {'hotxlfp': scratch}
    if with_ply:
        roots['ply'] = ply_root()
    purge = tuple(roots)
    for k in [k for k in sys.modules if k.split('.')[0] in purge]:
        del sys.modules[k]
    if _installed is not None:
        sys.meta_path.remove(_installed)
    _installed = _Finder(roots, instrument)
    sys.meta_path.insert(0, _installed)
    sys.dont_write_bytecode = True
    return importlib.import_module('hotxlfp')


def install_pristine(scratch):
    """Import the scratch copy without any instrumentation (replay side)."""
    for k in [k for k in sys.modules if k.split('.')[0] == 'hotxlfp']:
        del sys.modules[k]
    sys.dont_write_bytecode = True
    if scratch not in sys.path:
        sys.path.insert(0, scratch)
    m = importlib.import_module('hotxlfp')
    assert os.path.realpath(m.__file__).startswith(os.path.realpath(scratch)), m.__file__
    return m
