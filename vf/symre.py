"""Regular expressions on symbolic strings: a backtracking matcher over Python's own parse tree
(re._parser) of the *real* pattern, in sre's priority order; every character test is a solver fork."""
import re
import re._constants as C
import re._parser as sre_parse
import z3
from . import engine as E
from .engine import Unmodelled
from .values import SymBool, SymStr, SymInt, mkstr, cps_of, in_ranges, zcp, _ranges
from . import models

_CAT = {}
_TREES = {}


def _cat_ranges(key):
    r = _CAT.get(key)
    if r is None:
        pat = {'SPACE': r'\s', 'DIGIT': r'\d', 'WORD': r'\w'}[key]
        rx = re.compile(pat)
        r = _ranges(lambda cp: rx.match(chr(cp)) is not None)
        _CAT[key] = r
    return r


def cat_formula(c, cat):
    n = str(cat)
    neg = 'NOT_' in n
    key = 'SPACE' if 'SPACE' in n else 'DIGIT' if 'DIGIT' in n else 'WORD' if 'WORD' in n else None
    if key is None:
        raise Unmodelled('regex category %s' % n)
    f = in_ranges(c, _cat_ranges(key))
    return z3.Not(f) if neg else f


def class_formula(c, items, ignorecase=False):
    neg = False
    fs = []
    for op, av in items:
        if op is C.NEGATE:
            neg = True
        elif op is C.LITERAL:
            fs.append(c == av)
        elif op is C.RANGE:
            fs.append(z3.And(c >= av[0], c <= av[1]))
        elif op is C.CATEGORY:
            fs.append(cat_formula(c, av))
        else:
            raise Unmodelled('class item %s' % op)
    f = z3.Or(*fs) if fs else z3.BoolVal(False)
    return z3.Not(f) if neg else f


def _test(f):
    f = z3.simplify(f)
    if z3.is_true(f):
        return True
    if z3.is_false(f):
        return False
    return bool(SymBool(f))


_STEPS = [0, 0]      # steps of the current top-level match, limit


def _begin(n):
    """step budget of one top-level match on a text of n characters: generous for the linear and quadratic scans the
    real patterns need, far below what exponential backtracking takes (the real engine backtracks the same way, in C)"""
    _STEPS[0] = 0
    _STEPS[1] = 20000 + 60 * n * n


def match_seq(nodes, k, s, i, groups, cont, flags):
    """CPS backtracking matcher; returns cont(...) of the first success in priority order, else None."""
    _STEPS[0] += 1
    if _STEPS[1] and _STEPS[0] > _STEPS[1]:
        _STEPS[1] = 0
        raise E.UnwindExceeded('regex backtracking: more than %d matcher steps in one match' % _STEPS[0])
    if k == len(nodes):
        return cont(i, groups)
    op, av = nodes[k]
    nxt = lambda j, g: match_seq(nodes, k + 1, s, j, g, cont, flags)
    if op is C.LITERAL or op is C.NOT_LITERAL or op is C.IN or op is C.ANY:
        if i >= len(s):
            return None
        c = zcp(s[i])
        if flags & re.IGNORECASE:
            raise Unmodelled('regex IGNORECASE')
        if op is C.LITERAL:
            f = c == av
        elif op is C.NOT_LITERAL:
            f = c != av
        elif op is C.ANY:
            f = z3.BoolVal(True) if flags & re.DOTALL else c != 10
        else:
            f = class_formula(c, av)
        if _test(f):
            return nxt(i + 1, groups)
        return None
    if op is C.SUBPATTERN:
        gid, addf, delf, sub = av

        def after(j, g):
            if gid is not None:
                g = dict(g)
                g[gid] = (i, j)
                g['last'] = gid
            return nxt(j, g)
        return match_seq(list(sub), 0, s, i, groups, after, flags)
    if op is C.BRANCH:
        for alt in av[1]:
            r = match_seq(list(alt), 0, s, i, groups, nxt, flags)
            if r is not None:
                return r
        return None
    if op is C.MAX_REPEAT or op is C.MIN_REPEAT:
        lo, hi, sub = av
        sub = list(sub)
        greedy = op is C.MAX_REPEAT

        def rep(count, j, g):
            def more():
                if hi is not C.MAXREPEAT and count >= hi:
                    return None
                return match_seq(sub, 0, s, j, g,
                                 lambda j2, g2: rep(count + 1, j2, g2) if (j2 > j or count < lo) else None,
                                 flags)

            def stop():
                return nxt(j, g) if count >= lo else None
            for f in ((more, stop) if greedy else (stop, more)):
                r = f()
                if r is not None:
                    return r
            return None
        return rep(0, i, groups)
    if op is C.AT:
        if av is C.AT_BEGINNING or av is C.AT_BEGINNING_STRING:
            if flags & re.MULTILINE and av is C.AT_BEGINNING:
                raise Unmodelled('regex MULTILINE ^')
            return nxt(i, groups) if i == 0 else None
        if av is C.AT_END:
            if flags & re.MULTILINE:
                raise Unmodelled('regex MULTILINE $')
            if i == len(s):
                return nxt(i, groups)
            if i == len(s) - 1 and _test(zcp(s[i]) == 10):
                return nxt(i, groups)
            return None
        if av is C.AT_END_STRING:
            return nxt(i, groups) if i == len(s) else None
        if av is C.AT_BOUNDARY or av is C.AT_NON_BOUNDARY:
            w = _cat_ranges('WORD')
            a = _test(in_ranges(zcp(s[i - 1]), w)) if i > 0 else False
            b = _test(in_ranges(zcp(s[i]), w)) if i < len(s) else False
            if (a != b) == (av is C.AT_BOUNDARY):
                return nxt(i, groups)
            return None
        raise Unmodelled('regex AT %s' % av)
    if op is C.ASSERT or op is C.ASSERT_NOT:
        direction, sub = av
        if direction != 1:
            raise Unmodelled('regex lookbehind')
        r = match_seq(list(sub), 0, s, i, groups, lambda j, g: (j, g), flags)
        if (r is not None) == (op is C.ASSERT):
            return nxt(i, groups)
        return None
    if op is C.GROUPREF:
        raise Unmodelled('regex backreference')
    raise Unmodelled('regex op %s' % op)


def unbounded_repeats(seq, before=()):
    """every repetition without an upper bound in a parsed pattern, with the node sequence that has to match before it
    is reached: [(before_nodes, body_nodes)]"""
    out = []
    seq = list(seq)
    for k, (op, av) in enumerate(seq):
        pre = list(before) + seq[:k]
        if op is C.MAX_REPEAT or op is C.MIN_REPEAT:
            lo, hi, sub = av
            if hi is C.MAXREPEAT:
                out.append((pre, list(sub)))
            out += unbounded_repeats(sub, pre)
        elif op is C.SUBPATTERN:
            out += unbounded_repeats(av[3], pre)
        elif op is C.BRANCH:
            for alt in av[1]:
                out += unbounded_repeats(alt, pre)
        elif op is C.ASSERT or op is C.ASSERT_NOT:
            out += unbounded_repeats(av[1], pre)
    return out


def single_char(body):
    return len(body) == 1 and body[0][0] in (C.LITERAL, C.NOT_LITERAL, C.IN, C.ANY)


def derivations(body, s, flags=0, limit=3):
    """number (capped) of different ways the backtracking matcher can match (?:body)* against the whole of s: every
    success is counted and then refused, which forces the matcher on to the next alternative, exactly the search a
    failing suffix triggers in the real engine"""
    cps = _as_symstr(s).cps
    n = len(cps)
    found = [0]

    class _Enough(Exception):
        pass

    def cont(j, g):
        if j == n:
            found[0] += 1
            if found[0] >= limit:
                raise _Enough()
        return None
    _begin(n + 8)
    try:
        match_seq([(C.MAX_REPEAT, (0, C.MAXREPEAT, list(body)))], 0, cps, 0, {}, cont, flags)
    except _Enough:
        pass
    return found[0]


def full_match_nodes(nodes, s, flags=0):
    cps = _as_symstr(s).cps
    n = len(cps)
    _begin(n + 8)
    return match_seq(list(nodes), 0, cps, 0, {}, lambda j, g: True if j == n else None, flags) is not None


def _tree(pattern):
    key = (pattern.pattern, pattern.flags)
    t = _TREES.get(key)
    if t is None:
        t = sre_parse.parse(pattern.pattern, pattern.flags)
        _TREES[key] = t
    return t


class SymMatch(object):
    """Mimics re.Match for the operations the repository uses."""
    def __init__(self, pattern, s, start, end, groups):
        self.re = pattern
        self.string = s
        self._s = s
        self._start = start
        self._end = end
        self._g = groups
        self.lastindex = groups.get('last')
        self.pos = 0

    def _slice(self, ab):
        if ab is None:
            return None
        return mkstr(self._s.cps[ab[0]:ab[1]]) if isinstance(self._s, SymStr) else self._s[ab[0]:ab[1]]

    def _gid(self, g):
        if isinstance(g, str):
            return self.re.groupindex[g]
        return g

    def group(self, *gs):
        if not gs:
            gs = (0,)
        out = []
        for g in gs:
            g = self._gid(g)
            if g == 0:
                out.append(self._slice((self._start, self._end)))
            else:
                if g > self.re.groups:
                    raise IndexError('no such group')
                out.append(self._slice(self._g.get(g)))
        return out[0] if len(out) == 1 else tuple(out)

    def groups(self, default=None):
        return tuple(self._slice(self._g.get(g)) if self._g.get(g) is not None else default
                     for g in range(1, self.re.groups + 1))

    def __getitem__(self, g):
        return self.group(g)

    def start(self, g=0):
        g = self._gid(g)
        return self._start if g == 0 else (self._g[g][0] if g in self._g else -1)

    def end(self, g=0):
        g = self._gid(g)
        return self._end if g == 0 else (self._g[g][1] if g in self._g else -1)

    def span(self, g=0):
        return (self.start(g), self.end(g))

    @property
    def lastgroup(self):
        if self.lastindex is None:
            return None
        for n, i in self.re.groupindex.items():
            if i == self.lastindex:
                return n
        return None

    def __bool__(self):
        return True


def _as_symstr(s):
    if isinstance(s, SymStr):
        return s
    if isinstance(s, str):
        return SymStr(cps_of(s))
    raise TypeError('expected string or bytes-like object, got %r' % models._tname(s))


def sym_match_at(pattern, s, pos, full=False):
    ss = _as_symstr(s)
    tree = list(_tree(pattern))
    n = len(ss.cps)
    cont = (lambda j, g: (j, g) if j == n else None) if full else (lambda j, g: (j, g))
    _begin(n)
    r = match_seq(tree, 0, ss.cps, pos, {}, cont, pattern.flags)
    if r is None:
        return None
    end, groups = r
    return SymMatch(pattern, ss, pos, end, groups)


def p_match(pattern, s, pos=0, endpos=None):
    if endpos is not None:
        raise Unmodelled('regex endpos')
    return sym_match_at(pattern, s, pos)


def p_fullmatch(pattern, s, pos=0):
    return sym_match_at(pattern, s, pos, full=True)


def p_search(pattern, s, pos=0):
    ss = _as_symstr(s)
    for i in range(pos, len(ss.cps) + 1):
        m = sym_match_at(pattern, ss, i)
        if m is not None:
            return m
    return None


def p_finditer(pattern, s, pos=0):
    ss = _as_symstr(s)
    i = pos
    n = len(ss.cps)
    out = []
    while i <= n:
        m = sym_match_at(pattern, ss, i)
        if m is None:
            i += 1
            continue
        out.append(m)
        i = m._end if m._end > m._start else m._end + 1
    return iter(out)


def p_sub(pattern, repl, s, count=0):
    ss = _as_symstr(s)
    if callable(repl):
        raise Unmodelled('re.sub with callable')
    rc = cps_of(repl)
    if rc is None:
        raise TypeError('repl must be str')
    if 92 in [c for c in rc if isinstance(c, int)]:
        raise Unmodelled('re.sub template with backslash')
    out = []
    i = 0
    n = len(ss.cps)
    last_end = -1
    while i <= n:
        m = sym_match_at(pattern, ss, i)
        if m is not None and not (m._end == m._start and m._start == last_end):
            out.extend(rc)
            if m._end > m._start:
                i = m._end
                last_end = i
                continue
            last_end = i
        if i < n:
            out.append(ss.cps[i])
        i += 1
    return mkstr(out)


_PMETHODS = {'match': p_match, 'fullmatch': p_fullmatch, 'search': p_search, 'finditer': p_finditer, 'sub': p_sub}
_PATTERN_T = type(re.compile(''))


def _hook(f, recv, a, kw):
    if isinstance(recv, _PATTERN_T):
        m = _PMETHODS.get(f.__name__)
        if m is None:
            raise Unmodelled('re.Pattern.%s on symbolic str' % f.__name__)
        return m(recv, *a, **kw)
    return NotImplemented


models.CALL_HOOKS.append(_hook)


def _modfn(name):
    real = getattr(re, name)

    def model(pattern, *a, **kw):
        if not any(models.symbolic(x) for x in a) and not models.symbolic(pattern) and not any(models.symbolic(x) for x in kw.values()):
            return real(pattern, *a, **kw)
        if models.symbolic(pattern):
            raise Unmodelled('re.%s with symbolic pattern' % name)
        flags = kw.pop('flags', 0)
        pat = pattern if isinstance(pattern, _PATTERN_T) else re.compile(pattern, flags)
        return _PMETHODS[name](pat, *a, **kw)
    return model


for _n in ('match', 'fullmatch', 'search', 'finditer', 'sub'):
    models.PY_MODELS[getattr(re, _n)] = _modfn(_n)


# ------------------------------------------------------------------------------------------------
# fnmatch on symbolic strings: glob semantics of fnmatch.fnmatchcase (posix: fnmatch == fnmatchcase)
def glob_match(name, pat):
    """name, pat: str | SymStr.  '*' any run, '?' any single char, '[' set syntax unmodelled, else literal."""
    import fnmatch as _fn
    if not models.symbolic(name) and not models.symbolic(pat):
        return _fn.fnmatch(name, pat)
    if not isinstance(name, (str, SymStr)):
        raise TypeError('expected str, bytes or os.PathLike object, not %s' % models._tname(name))
    if not isinstance(pat, (str, SymStr)):
        raise TypeError('expected str, bytes or os.PathLike object, not %s' % models._tname(pat))
    n = cps_of(name)
    p = cps_of(pat)
    # classify pattern characters (fork)
    kinds = []
    for c in p:
        zc = zcp(c)
        if _test(zc == 42):
            kinds.append('*')
        elif _test(zc == 63):
            kinds.append('?')
        elif _test(zc == 91):
            raise Unmodelled('fnmatch pattern with [')
        else:
            kinds.append('lit')
    # fnmatch translates to a regex with DOTALL: '?' matches any char incl. newline. DP with forks on literal equality
    memo = {}

    def go(i, j):
        key = (i, j)
        if key in memo:
            return memo[key]
        if j == len(p):
            r = i == len(n)
        elif kinds[j] == '*':
            r = any(go(k, j + 1) for k in range(i, len(n) + 1))
        elif i >= len(n):
            r = False
        elif kinds[j] == '?':
            r = go(i + 1, j + 1)
        else:
            r = _test(zcp(n[i]) == zcp(p[j])) and go(i + 1, j + 1)
        memo[key] = r
        return r
    return go(0, 0)


import fnmatch as _fnmatch_mod
models.PY_MODELS[_fnmatch_mod.fnmatch] = glob_match
models.PY_MODELS[_fnmatch_mod.fnmatchcase] = glob_match
