"""Harness base class, registry and the environment handle given to harness code."""
import sys

REGISTRY = {}


def register(cls):
    h = cls()
    assert h.name and h.prop, cls
    assert h.name not in REGISTRY, h.name
    REGISTRY[h.name] = h
    return cls


def for_property(pid):
    return [h for h in REGISTRY.values() if h.prop == pid]


class Raised(object):
    """Outcome wrapper: the real code let an exception escape."""
    def __init__(self, exc):
        self.type = type(exc).__name__
        self.msg = str(exc)[:200]
        self.exc = exc

    def __repr__(self):
        return 'Raised(%s: %s)' % (self.type, self.msg)


class Env(object):
    """Access to the package under test (instrumented copy on the symbolic side, pristine on the replay side)."""
    def __init__(self, hot, symbolic):
        self.hot = hot
        self.symbolic = symbolic

    def mod(self, name):
        return sys.modules['hotxlfp.' + name]

    @property
    def error(self):
        return sys.modules['hotxlfp.formulas.error']

    def Parser(self, **kw):
        return self.hot.Parser(**kw)

    CODES = ('#ERROR!', '#DIV/0!', '#NAME?', '#N/A', '#NULL!', '#NUM!', '#REF!', '#VALUE!', '#GETTING_DATA')

    def error_by_code(self, code):
        m = self.error
        for n in ('ERROR', 'DIV_ZERO', 'NAME', 'NOT_AVAILABLE', 'NULL', 'NUM', 'REF', 'VALUE', 'DATA'):
            v = getattr(m, n)
            if str(v) == code:
                return v
        return m.XLError(code)

    def is_error(self, v):
        return isinstance(v, self.error.XLError)


class Harness(object):
    name = ''
    prop = ''
    doc = ''
    functions = ()       # repository functions this harness encodes (static part; the dynamic part is recorded)
    bounds = ''          # stated bounds
    outside = ()         # explicitly outside the claim
    stubs = ()           # environment stubs / assumptions relied on
    needs_ply = False    # symbolic formula text: ply itself goes through the instrumenting loader
    termination = False  # a budget overrun confirmed by replay is a violation (C01, C17)
    max_decisions = 4000
    max_ticks = 20000
    solver_timeout_ms = {'quick': 20000, 'thorough': 60000}
    step_budget = 2000000   # line events allowed for one concrete replay
    case_timeout_s = {'quick': 150, 'thorough': 1500}

    def cases(self, tier):
        return [{}]

    def build(self, e, p):
        return {}

    def run(self, env, inp, p):
        raise NotImplementedError

    def post(self, env, inp, out, p):
        raise NotImplementedError

    # convenience -----------------------------------------------------------------------------
    def parse_with(self, env, formula, variables=None, functions=None, debug=False):
        P = env.Parser(debug=debug)
        for k, v in (variables or {}).items():
            P.set_variable(k, v)
        for k, v in (functions or {}).items():
            P.set_function(k, v)
        return P.parse(formula)
