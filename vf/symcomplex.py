"""complex numbers with symbolic parts (only what COMPLEX / IMREAL / IMAGINARY need)."""
from .engine import Unmodelled
from . import models


class SymComplex(object):
    __is_sym__ = True
    __pytype__ = complex
    __slots__ = ('real', 'imag')

    def __init__(self, real, imag):
        self.real = models.m_float(real) if models.symbolic(real) else float(real)
        self.imag = models.m_float(imag) if models.symbolic(imag) else float(imag)

    def __hash__(self):
        raise Unmodelled('hash of symbolic complex')

    def __eq__(self, o):
        if isinstance(o, (SymComplex, complex)):
            from .spec import And
            return And(self.real == o.real, self.imag == o.imag)
        return NotImplemented

    def __sym_str__(self):
        raise Unmodelled('str() of symbolic complex')

    def __sym_concretize__(self, model):
        from .spec import concretize
        return complex(concretize(self.real, model), concretize(self.imag, model))
