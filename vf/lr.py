"""Engine L: bounded model check (QF_BV) of the LALR automaton that ply builds from the repository's real grammar,
against an independent operator-precedence (shunting-yard) reference driven by the precedence levels written in the
property statement.  Both machines emit the parse in reverse Polish order; the query asks for a token sequence inside
the property's domain on which they differ."""
import time
import z3

W = 16
I = lambda v: z3.BitVecVal(v, W)
ERR = 0x7fff
ACC = 0x3fff

TERMS = ['$end', 'NUMBER', 'PLUS', 'MINUS', 'MULT', 'DIV', 'AMP', 'GREATER', 'LESS',
         'GREATEREQ', 'LESSEQ', 'EQUAL', 'NOTEQUAL', 'LPAREN', 'RPAREN']
TID = {t: i for i, t in enumerate(TERMS)}
BINOPS = TERMS[2:13]
ARITH = {'PLUS', 'MINUS', 'MULT', 'DIV'}
CMP = set(TERMS[7:13])
# precedence levels of the STATEMENT (not of the implementation): unary minus > * / > + - > comparisons; & > comparisons
SPEC_LEVEL = {'PLUS': 2, 'MINUS': 2, 'MULT': 3, 'DIV': 3, 'AMP': 2}
SPEC_LEVEL.update({c: 1 for c in CMP})
SPELL = {'PLUS': '+', 'MINUS': '-', 'MULT': '*', 'DIV': '/', 'AMP': '&', 'GREATER': '>', 'LESS': '<', 'GREATEREQ': '>=',
         'LESSEQ': '<=', 'EQUAL': '=', 'NOTEQUAL': '<>', 'LPAREN': '(', 'RPAREN': ')'}


def sel(lst, idx):
    e = lst[-1]
    for i in range(len(lst) - 2, -1, -1):
        e = z3.If(idx == i, lst[i], e)
    return e


def upd(lst, idx, val, cond=True):
    return [z3.If(z3.And(cond, idx == i), val, lst[i]) for i in range(len(lst))]


class Tab(object):
    def __init__(self, entries, default):
        self.entries = entries
        self.default = default

    def select(self, key):
        e = I(self.default)
        for k, v in self.entries.items():
            e = z3.If(key == k, I(v), e)
        return e


class LRModel(object):
    """The two transition systems unrolled for token sequences of exactly N tokens."""

    def __init__(self, yacc_parser, N, terms=None):
        """terms: token alphabet ('$end' first).  With the default (C04) alphabet the shunting-yard reference is built
        too; with any other alphabet only the LR driver (for the halting / unwinding query)."""
        global TERMS, TID
        self.N = N
        Y = yacc_parser
        self.with_ref = terms is None
        if terms is not None:
            self.terms = list(terms)
        else:
            self.terms = list(TERMS)
        TERMS_ = self.terms
        TID_ = {t: i for i, t in enumerate(TERMS_)}
        self.tid = TID_
        prods = Y.productions
        self.prods = prods
        nonterms = sorted({p.name for p in prods})
        NID = {n: i for i, n in enumerate(nonterms)}
        # states reachable over the alphabet (over-approximation)
        seen = {0}
        work = [0]
        while work:
            st = work.pop()
            for t, a in Y.action.get(st, {}).items():
                if t in TID_ and a > 0 and a not in seen:
                    seen.add(a)
                    work.append(a)
            for nn, g in Y.goto.get(st, {}).items():
                if g not in seen:
                    seen.add(g)
                    work.append(g)
        self.reach = seen
        act = {}
        for s, d in Y.action.items():
            if s not in seen:
                continue
            for t, a in d.items():
                if t in TID_:
                    act[s * 64 + TID_[t]] = (a if a > 0 else (0x4000 + (-a))) if a != 0 else ACC
        goto = {}
        for s, d in Y.goto.items():
            if s not in seen:
                continue
            for n, g in d.items():
                goto[s * 64 + NID[n]] = g
        self.n_act, self.n_goto = len(act), len(goto)
        ACT, GOTO = Tab(act, ERR), Tab(goto, ERR)
        PLEN = Tab({i: p.len for i, p in enumerate(prods)}, 0)
        PLHS = Tab({i: NID[p.name] for i, p in enumerate(prods) if i}, 0)
        PRPN = Tab({i: self.rpn_of_production(p) for i, p in enumerate(prods)}, 0)
        NT = len(TERMS_)
        tok = [z3.BitVec('t%d' % i, W) for i in range(N)]
        self.tok = tok
        cons = []
        for i in range(N):
            cons.append(z3.And(z3.UGE(tok[i], 1), z3.ULT(tok[i], NT)))
        self.cons = cons
        n = I(N)

        def tok_at(pos):
            return z3.If(z3.UGE(pos, n), I(0), sel(tok, pos))
        # ---- machine 1: LR driver over the real tables
        D = N + 2
        T = 3 * N + 3
        R = 2 * N + 2
        stack = [I(0)] * D
        sp = I(0)
        pos = I(0)
        done = z3.BoolVal(False)
        err = z3.BoolVal(False)
        out = [I(0)] * R
        on = I(0)
        for step in range(T):
            st = sel(stack, sp)
            la = tok_at(pos)
            a = ACT.select(st * 64 + la)
            live = z3.And(z3.Not(done), z3.Not(err))
            is_err = z3.And(live, a == ERR)
            is_acc = z3.And(live, a == ACC)
            is_shift = z3.And(live, z3.ULT(a, ACC))
            is_red = z3.And(live, z3.UGT(a, 0x4000), a != ERR)
            p = a - 0x4000
            plen = PLEN.select(p)
            base = sp - plen
            g = GOTO.select(sel(stack, base) * 64 + PLHS.select(p))
            rp = PRPN.select(p)
            nsp = z3.If(is_shift, sp + 1, z3.If(is_red, base + 1, sp))
            nstack = upd(stack, nsp, z3.If(is_shift, a, g), z3.Or(is_shift, is_red))
            emit = z3.And(is_red, rp != 0)
            out = upd(out, on, rp, emit)
            on = z3.If(emit, on + 1, on)
            pos = z3.If(is_shift, pos + 1, pos)
            err = z3.Or(err, is_err)
            done = z3.Or(done, is_acc)
            stack, sp = nstack, nsp
        self.lr_ok = z3.And(done, z3.Not(err))
        self.lr_unfinished = z3.And(z3.Not(done), z3.Not(err))
        lr_out, lr_on = out, on
        if not self.with_ref:
            return
        # ---- machine 2: shunting-yard reference
        def level(code):
            e = I(0)
            for op in BINOPS:
                e = z3.If(code == 10 + TID[op], I(SPEC_LEVEL[op]), e)
            return z3.If(code == 50, I(4), e)
        ops = [I(0)] * D
        osp = I(0)
        out = [I(0)] * R
        on = I(0)
        pos = I(0)
        bad = z3.BoolVal(False)
        outside = z3.BoolVal(False)
        fin = z3.BoolVal(False)
        expect_operand = z3.BoolVal(True)
        kind = [I(0)] * D
        ncmp = [I(0)] * D
        depth = I(0)
        for step in range(3 * N + 4):
            live = z3.And(z3.Not(fin), z3.Not(bad))
            la = tok_at(pos)
            top = z3.If(z3.UGT(osp, 0), sel(ops, osp - 1), I(0))
            is_end = la == 0
            is_num = la == TID['NUMBER']
            is_lp = la == TID['LPAREN']
            is_rp = la == TID['RPAREN']
            is_minus = la == TID['MINUS']
            is_bin = z3.And(z3.UGE(la, 2), z3.ULE(la, 12))
            unary = z3.And(is_minus, expect_operand)
            binary = z3.And(is_bin, z3.Not(expect_operand))
            lvl_la = level(10 + la)
            top_is_op = z3.And(z3.UGT(osp, 0), top != 90)
            want_pop = z3.And(live, top_is_op,
                              z3.Or(z3.And(binary, z3.UGE(level(top), lvl_la)),
                                    z3.And(is_rp, z3.Not(expect_operand)),
                                    z3.And(is_end, z3.Not(expect_operand))))
            do_pop = want_pop
            do_num = z3.And(live, z3.Not(do_pop), is_num, expect_operand)
            do_lp = z3.And(live, z3.Not(do_pop), is_lp, expect_operand)
            do_un = z3.And(live, z3.Not(do_pop), unary)
            do_bin = z3.And(live, z3.Not(do_pop), binary)
            do_rp = z3.And(live, z3.Not(do_pop), is_rp, z3.Not(expect_operand), z3.UGT(osp, 0), top == 90)
            do_end = z3.And(live, z3.Not(do_pop), is_end, z3.Not(expect_operand), osp == 0)
            any_act = z3.Or(do_pop, do_num, do_lp, do_un, do_bin, do_rp, do_end)
            bad = z3.Or(bad, z3.And(live, z3.Not(any_act)))
            emit = z3.Or(do_pop, do_num)
            out = upd(out, on, z3.If(do_pop, top, I(1)), emit)
            on = z3.If(emit, on + 1, on)
            push = z3.Or(do_lp, do_un, do_bin)
            pushed = z3.If(do_lp, I(90), z3.If(do_un, I(50), 10 + la))
            ops = upd(ops, osp, pushed, push)
            osp = z3.If(push, osp + 1, z3.If(z3.Or(do_pop, do_rp), osp - 1, osp))
            k_here = sel(kind, depth)
            c_here = sel(ncmp, depth)
            la_arith = z3.Or(*[la == TID[o] for o in ARITH])
            la_amp = la == TID['AMP']
            la_cmp = z3.Or(*[la == TID[o] for o in CMP])
            newk = z3.If(la_arith, I(1), z3.If(la_amp, I(2), k_here))
            outside = z3.Or(outside,
                            z3.And(do_bin, la_arith, k_here == 2), z3.And(do_bin, la_amp, k_here == 1),
                            z3.And(do_bin, la_cmp, z3.UGE(c_here, 1)))
            kind = upd(kind, depth, newk, do_bin)
            ncmp = upd(ncmp, depth, c_here + 1, z3.And(do_bin, la_cmp))
            kind = upd(kind, depth + 1, I(0), do_lp)
            ncmp = upd(ncmp, depth + 1, I(0), do_lp)
            depth = z3.If(do_lp, depth + 1, z3.If(do_rp, depth - 1, depth))
            pos = z3.If(z3.Or(do_num, do_lp, do_un, do_bin, do_rp), pos + 1, pos)
            expect_operand = z3.If(z3.Or(do_num, do_rp), False, z3.If(z3.Or(do_lp, do_un, do_bin), True, expect_operand))
            fin = z3.Or(fin, do_end)
        self.ref_ok = z3.And(fin, z3.Not(bad))
        self.ref_unfinished = z3.And(z3.Not(fin), z3.Not(bad))
        self.outside = outside
        self.same = z3.And(lr_on == on, *[lr_out[i] == out[i] for i in range(R)])

    @staticmethod
    def rpn_of_production(p):
        syms = p.str.split('->', 1)[1].split()
        if p.name == 'expression' and len(syms) == 3 and syms[0] == 'expression' and syms[2] == 'expression' and syms[1] in TID:
            return 10 + TID[syms[1]]
        if p.name == 'expression' and syms == ['MINUS', 'expression']:
            return 50
        if p.name == 'expression' and syms == ['NUMBER']:
            return 1
        return 0

    def solver(self):
        s = z3.SolverFor('QF_BV')
        s.add(*self.cons)
        return s

    def tokens_of(self, m):
        return [self.terms[m.eval(t, model_completion=True).as_long()] for t in self.tok]


OPERANDS = [2, 3, 5, 7, 11, 13, 17, 19, 23]


def render(tokens):
    """token names -> formula text with distinct small primes as operands"""
    out = []
    k = 0
    for t in tokens:
        if t == 'NUMBER':
            out.append(str(OPERANDS[k % len(OPERANDS)]))
            k += 1
        else:
            out.append(SPELL[t])
    return ''.join(out)
