"""Symbolic proxies over z3 terms: SymBool, SymInt, SymFloat, SymStr.

They implement Python's operator protocol faithfully enough that the repository's real code runs
on them unchanged: unsupported operand combinations return NotImplemented (so CPython raises the
same TypeError the real value would), ZeroDivisionError is raised on a zero divisor (after a fork),
hashing raises Unmodelled (never a silent TypeError), truth tests fork through the engine.
"""
import math
from fractions import Fraction
import z3
from . import engine as E
from .engine import Unmodelled

TWO53 = 2 ** 53
EPS = z3.RealVal(1) / z3.RealVal(2 ** 53)


# ------------------------------------------------------------------------------------------------
# helpers
def is_sym(x):
    return isinstance(x, (SymInt, SymBool, SymFloat, SymStr)) or getattr(x, '__is_sym__', False)


def mkint(z):
    if z3.is_int_value(z):
        return z.as_long()
    return SymInt(z)


def mkbool(z):
    if z3.is_true(z):
        return True
    if z3.is_false(z):
        return False
    return SymBool(z)


def zbool(x):
    """z3 Bool term of a python/symbolic truth value (no fork)."""
    if isinstance(x, SymBool):
        return x.z
    if isinstance(x, bool):
        return z3.BoolVal(x)
    if isinstance(x, SymInt):
        return x.z != 0
    if isinstance(x, SymFloat):
        return x.real() != 0
    if z3.is_expr(x):
        return x
    return z3.BoolVal(bool(x))


def zint(x):
    """z3 Int term if x is integer-like (int, bool, SymInt, SymBool) else None."""
    if isinstance(x, SymInt):
        return x.z
    if isinstance(x, SymBool):
        return z3.If(x.z, z3.IntVal(1), z3.IntVal(0))
    if isinstance(x, bool):
        return z3.IntVal(int(x))
    if isinstance(x, int):
        return z3.IntVal(x)
    return None


def is_intlike(x):
    return isinstance(x, (int, SymInt, SymBool))  # bool is int


def is_floatlike(x):
    return isinstance(x, (float, SymFloat))


def is_numlike(x):
    return is_intlike(x) or is_floatlike(x)


def linearize(t):
    """t (z3 Int term) as const + sum coeff*atom; atoms are maximal non-linear subterms."""
    const = 0
    atoms = {}

    def add_atom(a, c):
        if c == 0:
            return
        k = a.get_id()
        if k in atoms:
            atoms[k] = (a, atoms[k][1] + c)
        else:
            atoms[k] = (a, c)

    def go(t, c):
        nonlocal const
        if z3.is_int_value(t):
            const += c * t.as_long()
            return
        if z3.is_app(t):
            k = t.decl().kind()
            ch = t.children()
            if k == z3.Z3_OP_ADD:
                for x in ch:
                    go(x, c)
                return
            if k == z3.Z3_OP_SUB:
                go(ch[0], c)
                for x in ch[1:]:
                    go(x, -c)
                return
            if k == z3.Z3_OP_UMINUS:
                go(ch[0], -c)
                return
            if k == z3.Z3_OP_MUL:
                coef = 1
                rest = []
                for x in ch:
                    if z3.is_int_value(x):
                        coef *= x.as_long()
                    else:
                        rest.append(x)
                if not rest:
                    const += c * coef
                    return
                if len(rest) == 1:
                    go(rest[0], c * coef)
                    return
        add_atom(t, c)
    go(t, 1)
    return const, [v for v in atoms.values() if v[1] != 0]


def _lin_term(const, atoms):
    t = None
    for a, c in atoms:
        m = a if c == 1 else (c * a)
        t = m if t is None else t + m
    if t is None:
        return z3.IntVal(const)
    return t + const if const else t


def const_div(a, k):
    """floor(a / k) for a positive constant k, pulling exact multiples out of the dividend:
    floor((k*A + B)/k) = A + floor(B/k), and cancelling a common factor of B and k."""
    import math as _m
    const, atoms = linearize(a)
    qa = [(x, c // k) for x, c in atoms if c // k != 0 and c % k == 0]
    ra = [(x, c) for x, c in atoms if c % k != 0]
    if not ra:
        q0, _ = divmod(const, k)
        return _lin_term(q0, qa), None
    qc, rc = divmod(const, k)
    # remainder part: rc + sum c*x with no coefficient divisible by k
    g = k
    for _, c in ra:
        g = _m.gcd(g, c)
    rem_lin_const = rc
    if g > 1:
        # floor((g*B' + rc)/ (g*k')) : only cancel when rc is a multiple of g too
        if rc % g == 0:
            inner = _lin_term(rc // g, [(x, c // g) for x, c in ra])
            kk = k // g
        else:
            inner = _lin_term(rc, ra)
            kk = k
    else:
        inner = _lin_term(rc, ra)
        kk = k
    d = inner / kk if kk != 1 else inner
    return _lin_term(qc, qa) + d, (inner, kk)


def fdiv(a, b):
    """Python floor division on z3 Int terms (b != 0)."""
    if z3.is_int_value(b):
        k = b.as_long()
        if k > 0:
            return z3.simplify(const_div(a, k)[0])
        if k < 0:
            return z3.simplify(const_div(-a, -k)[0])
    return z3.If(b > 0, a / b, (-a) / (-b))


def fmod(a, b):
    """Python modulo on z3 Int terms (b != 0)."""
    return z3.simplify(a - b * fdiv(a, b))


def zabs(z):
    return z3.If(z < 0, -z, z)


_FL = z3.Function('fl', z3.RealSort(), z3.RealSort())


def interval(t, bounds, depth=0, memo=None):
    """Conservative interval (lo, hi) of a z3 arithmetic term as Fractions / None for unbounded, from the variable
    bounds recorded by the engine (memoised over the term DAG)."""
    if memo is None:
        memo = {}
    key = t.get_id()
    hit = memo.get(key)
    if hit is not None:
        return hit[1]
    r = _interval(t, bounds, depth, memo)
    memo[key] = (t, r)
    return r


def _interval(t, bounds, depth, memo):
    from fractions import Fraction as F
    INF = None
    if z3.is_int_value(t):
        v = F(t.as_long())
        return v, v
    if z3.is_rational_value(t):
        v = F(t.numerator_as_long(), t.denominator_as_long())
        return v, v
    if depth > 60 or not z3.is_app(t):
        return INF, INF
    k = t.decl().kind()
    ch = t.children()
    if k == z3.Z3_OP_UNINTERPRETED and not ch:
        b = bounds.get(str(t))
        if b is None:
            return INF, INF
        return (F(b[0]) if b[0] is not None else INF), (F(b[1]) if b[1] is not None else INF)
    if k == z3.Z3_OP_TO_REAL or k == z3.Z3_OP_TO_INT:
        lo, hi = interval(ch[0], bounds, depth + 1, memo)
        if k == z3.Z3_OP_TO_INT:
            import math as _m
            return (F(_m.floor(lo)) if lo is not INF else INF), (F(_m.floor(hi)) if hi is not INF else INF)
        return lo, hi
    if k == z3.Z3_OP_ADD:
        lo, hi = F(0), F(0)
        for c in ch:
            a, b = interval(c, bounds, depth + 1, memo)
            lo = INF if (lo is INF or a is INF) else lo + a
            hi = INF if (hi is INF or b is INF) else hi + b
        return lo, hi
    if k == z3.Z3_OP_SUB:
        lo, hi = interval(ch[0], bounds, depth + 1, memo)
        for c in ch[1:]:
            a, b = interval(c, bounds, depth + 1, memo)
            lo = INF if (lo is INF or b is INF) else lo - b
            hi = INF if (hi is INF or a is INF) else hi - a
        return lo, hi
    if k == z3.Z3_OP_UMINUS:
        a, b = interval(ch[0], bounds, depth + 1, memo)
        return (INF if b is INF else -b), (INF if a is INF else -a)
    if k == z3.Z3_OP_MUL:
        lo, hi = F(1), F(1)
        for c in ch:
            a, b = interval(c, bounds, depth + 1, memo)
            if a is INF or b is INF or lo is INF or hi is INF:
                return INF, INF
            cands = [lo * a, lo * b, hi * a, hi * b]
            lo, hi = min(cands), max(cands)
        return lo, hi
    if k in (z3.Z3_OP_DIV, z3.Z3_OP_IDIV):
        a, b = interval(ch[0], bounds, depth + 1, memo)
        c, d = interval(ch[1], bounds, depth + 1, memo)
        if a is INF or b is INF or c is INF or d is INF or c != d or c == 0:
            return INF, INF
        x, y = a / c, b / c
        lo, hi = min(x, y), max(x, y)
        if k == z3.Z3_OP_IDIV:
            import math as _m
            return F(_m.floor(lo)), F(_m.floor(hi))
        return lo, hi
    if k == z3.Z3_OP_MOD:
        c, d = interval(ch[1], bounds, depth + 1, memo)
        if c is not INF and c == d and c > 0:
            return F(0), c - 1
        return INF, INF
    if k == z3.Z3_OP_ITE:
        a, b = interval(ch[1], bounds, depth + 1, memo)
        c, d = interval(ch[2], bounds, depth + 1, memo)
        lo = INF if (a is INF or c is INF) else min(a, c)
        hi = INF if (b is INF or d is INF) else max(b, d)
        return lo, hi
    if k == z3.Z3_OP_UNINTERPRETED and t.decl().name() == 'fl':
        a, b = interval(ch[0], bounds, depth + 1, memo)
        if a is INF or b is INF:
            return INF, INF
        w = max(abs(a), abs(b)) / 2 ** 52
        return a - w, b + w
    return INF, INF


def fl_of(q):
    """The double nearest to the real q, as an uninterpreted function application plus a sound error model.
    When interval analysis bounds |q| <= M (from the bounds of the inputs) the model is the absolute bound
    |fl(q)-q| <= 2^-53 M (two linear inequalities); otherwise the relative bound |fl(q)-q| <= 2^-53 |q|.
    Every IEEE double operation in the normal range satisfies both, so an unsat answer holds for real doubles;
    sat answers are candidates (replayed on the real code)."""
    e = E.cur()
    q = z3.simplify(q)
    if getattr(e, 'exact_floats', False):
        return q      # harness-requested exact real arithmetic (rounding outside the claim, stated by the harness)
    key = q.get_id()
    hit = e.uf_cache.get(key)
    if hit is not None:
        return hit
    v = _FL(q)
    lo, hi = interval(q, e.bounds) if getattr(e, 'float_bound', 'absolute') == 'absolute' else (None, None)
    if lo is not None and hi is not None:
        M = max(abs(lo), abs(hi))
        err = z3.RealVal(str(M)) * EPS if M else z3.RealVal(0)
        e.add(v - q <= err, q - v <= err)
        if lo >= 0:
            e.add(v >= 0)
        if hi <= 0:
            e.add(v <= 0)
    else:
        e.add(z3.If(q >= 0,
                    z3.And(v >= q * (1 - EPS), v <= q * (1 + EPS)),
                    z3.And(v <= q * (1 - EPS), v >= q * (1 + EPS))))
    # rounding is monotone and fixes representable numbers: anchors -1, 0, 1
    for c in (-1, 0, 1):
        if lo is not None and hi is not None and (hi < c or lo > c):
            continue     # the value is known to lie on one side of this anchor: the error bound already says it all
        e.add(z3.Implies(q >= c, v >= c), z3.Implies(q <= c, v <= c))
    e.uf_cache[key] = v
    return v


def to_fractionlike(c):
    if isinstance(c, float):
        if c != c or c in (float('inf'), float('-inf')):
            raise Unmodelled('non-finite float in symbolic arithmetic')
        f = Fraction(c)
        return z3.RealVal(str(f.numerator)) / z3.RealVal(str(f.denominator)) if f.denominator != 1 else z3.RealVal(str(f.numerator))
    raise TypeError(c)


# ------------------------------------------------------------------------------------------------
class SymBool(object):
    __slots__ = ('z',)
    __is_sym__ = True

    def __getattr__(self, name):
        if hasattr(bool, name):
            raise Unmodelled('bool.%s on a symbolic bool' % name)
        raise AttributeError(name)

    def __init__(self, z):
        self.z = z

    def __bool__(self):
        return E.cur().branch(self.z)

    def __hash__(self):
        raise Unmodelled('hash of symbolic bool')

    def __repr__(self):
        return 'SymBool(%s)' % (self.z,)

    def __str__(self):
        raise Unmodelled('implicit str() of symbolic bool')

    def _asint(self):
        return SymInt(zint(self))

    def __eq__(self, o):
        if isinstance(o, (SymBool, bool)):
            return mkbool(self.z == zbool(o))
        if is_numlike(o):
            return self._asint() == o
        return NotImplemented

    def __ne__(self, o):
        r = self.__eq__(o)
        if r is NotImplemented:
            return r
        return mkbool(z3.Not(zbool(r)))

    def __and__(self, o):
        if isinstance(o, (SymBool, bool)):
            return mkbool(z3.And(self.z, zbool(o)))
        return self._asint() & o
    __rand__ = __and__

    def __or__(self, o):
        if isinstance(o, (SymBool, bool)):
            return mkbool(z3.Or(self.z, zbool(o)))
        return NotImplemented
    __ror__ = __or__

    def __xor__(self, o):
        if isinstance(o, (SymBool, bool)):
            return mkbool(z3.Xor(self.z, zbool(o)))
        return NotImplemented
    __rxor__ = __xor__

    def __invert__(self):
        return ~self._asint()

    def __index__(self):
        raise Unmodelled('__index__ of symbolic bool')


def _fwd(name):
    def f(self, *a):
        return getattr(self._asint(), name)(*a)
    f.__name__ = name
    return f


for _n in ('__add__', '__radd__', '__sub__', '__rsub__', '__mul__', '__rmul__', '__truediv__', '__rtruediv__',
           '__floordiv__', '__rfloordiv__', '__mod__', '__rmod__', '__pow__', '__rpow__', '__neg__', '__pos__',
           '__abs__', '__lt__', '__le__', '__gt__', '__ge__', '__int__', '__float__', '__ceil__', '__floor__',
           '__trunc__', '__round__'):
    setattr(SymBool, _n, _fwd(_n))


# ------------------------------------------------------------------------------------------------
def _floatval(x):
    """('i', IntTerm) for integer-valued exact floats / ints, ('r', RealTerm) otherwise."""
    if isinstance(x, SymFloat):
        return ('i', x.iz) if x.iz is not None else ('r', x.r)
    zi = zint(x)
    if zi is not None:
        # int -> float conversion: exact up to 2^53, else rounded
        if SymBool(z3.And(zi <= TWO53, zi >= -TWO53)):
            return ('i', zi)
        return ('r', fl_of(z3.ToReal(zi)))
    if isinstance(x, float):
        if x == x and abs(x) != float('inf') and x == int(x) and abs(x) <= TWO53:
            return ('i', z3.IntVal(int(x)))
        return ('r', to_fractionlike(x))
    return None


def _real(kv):
    return z3.ToReal(kv[1]) if kv[0] == 'i' else kv[1]


def _mkfloat_exact_int(zi):
    """float whose value is the integer term zi if it fits 2^53, else the rounded one (fork)."""
    if SymBool(z3.And(zi <= TWO53, zi >= -TWO53)):
        return SymFloat(iz=zi)
    return SymFloat(r=fl_of(z3.ToReal(zi)))


def int_truediv(x, y):
    """Python int / int: the correctly rounded quotient of the exact integers (no prior conversion)."""
    if SymBool(y == 0):
        raise ZeroDivisionError('division by zero')
    q = fdiv(x, y)
    if SymBool(x - y * q == 0):
        if SymBool(z3.And(q <= TWO53, q >= -TWO53)):
            return SymFloat(iz=z3.simplify(q))
        return SymFloat(r=fl_of(z3.ToReal(q)))
    return SymFloat(quot=(x, y))


def _dyadic(v, kv):
    """(num, k) with value == num / 2^k exactly, for exact-integer floats, dyadic floats and concrete finite floats"""
    if isinstance(v, SymFloat):
        if v.dy is not None:
            return v.dy
        if v.iz is not None:
            return (v.iz, 0)
        return None
    if isinstance(v, float):
        if v != v or v in (float('inf'), float('-inf')):
            return None
        n, d = v.as_integer_ratio()
        k = d.bit_length() - 1
        if k > 60 or abs(n) > TWO53:
            return None
        return (z3.IntVal(n), k)
    if kv is not None and kv[0] == 'i':
        return (kv[1], 0)       # an int operand that converts exactly (|n| <= 2^53 was established by _floatval)
    return None


def _mk_dyadic(num, k):
    """the double for the exact value num / 2^k if that is representable (|num| <= 2^53), else the rounded one"""
    if k == 0:
        return _mkfloat_exact_int(num)
    if z3.is_int_value(num):
        n = num.as_long()
        while k > 0 and n % 2 == 0:
            n //= 2
            k -= 1
        if k == 0:
            return _mkfloat_exact_int(z3.IntVal(n))
        num = z3.IntVal(n)
    if SymBool(z3.And(num <= TWO53, num >= -TWO53)):
        return SymFloat(dy=(num, k))
    return SymFloat(r=fl_of(z3.ToReal(num) / z3.RealVal(2 ** k)))


def float_binop(op, a, b):
    """IEEE double op on two float-convertible operands.  Returns SymFloat."""
    if op == '/' and not is_floatlike(a) and not is_floatlike(b):
        za, zb = zint(a), zint(b)
        if za is not None and zb is not None:
            return int_truediv(za, zb)
    ka, kb = _floatval(a), _floatval(b)
    if ka is None or kb is None:
        return NotImplemented
    e = E.cur()
    if op in ('/', '//', '%'):
        if SymBool(_real(kb) == 0):
            raise ZeroDivisionError('float division by zero' if op == '/' else 'float modulo' if op == '%' else 'float floor division by zero')
    if ka[0] == 'i' and kb[0] == 'i':
        x, y = ka[1], kb[1]
        if op == '+':
            return _mkfloat_exact_int(x + y)
        if op == '-':
            return _mkfloat_exact_int(x - y)
        if op == '*':
            if not (z3.is_int_value(x) or z3.is_int_value(y)):
                e.stats['nonlinear'] += 1
            return _mkfloat_exact_int(x * y)
        if op == '/':
            if SymBool(x - y * fdiv(x, y) == 0):
                return SymFloat(iz=fdiv(x, y))   # |x/y| <= |x| <= 2^53
            return SymFloat(r=fl_of(z3.ToReal(x) / z3.ToReal(y)))
        if op == '//':
            return SymFloat(iz=fdiv(x, y))
        if op == '%':
            return SymFloat(iz=x - y * fdiv(x, y))
    da, db = _dyadic(a, ka), _dyadic(b, kb)
    if da is not None and db is not None and (da[1] or db[1]) and op in ('+', '-', '*', '/', '//', '%'):
        (x, i), (y, j) = da, db
        if op in ('//', '%'):
            # Python derives both from fmod, which is exact: q = floor(a / b), a % b = a - b q (sign of the divisor)
            K = max(i, j)
            xs, ys = x * (2 ** (K - i)), y * (2 ** (K - j))
            q = fdiv(xs, ys)
            if op == '//':
                return _mkfloat_exact_int(z3.simplify(q))
            return _mk_dyadic(z3.simplify(xs - ys * q), K)
        if op in ('+', '-'):
            K = max(i, j)
            xs, ys = x * (2 ** (K - i)), y * (2 ** (K - j))
            return _mk_dyadic(z3.simplify(xs + ys if op == '+' else xs - ys), K)
        if op == '*':
            if not (z3.is_int_value(x) or z3.is_int_value(y)):
                e.stats['nonlinear'] += 1
            return _mk_dyadic(z3.simplify(x * y), i + j)
        # the quotient of two exactly known rationals, correctly rounded = the correctly rounded quotient of integers
        return int_truediv(z3.simplify(x * (2 ** j)), z3.simplify(y * (2 ** i)))
    ra, rb = _real(ka), _real(kb)
    if op in ('+', '*') and (ra.hash(), ra.get_id()) > (rb.hash(), rb.get_id()):
        # IEEE + and * commute: build the same term for either operand order
        ra, rb, ka, kb = rb, ra, kb, ka
    # exact special cases
    if op == '*':
        for u, v in ((ka, kb), (kb, ka)):
            if u[0] == 'i' and z3.is_int_value(u[1]):
                c = u[1].as_long()
                if c in (1, 0, -1):
                    return SymFloat(r=z3.simplify(_real(v) * c))
        if not (z3.is_rational_value(z3.simplify(ra)) or z3.is_rational_value(z3.simplify(rb))):
            e.stats['nonlinear'] += 1
        return SymFloat(r=fl_of(ra * rb))
    if op == '+':
        res = SymFloat(r=fl_of(ra + rb))
        for u, v in ((a, b), (b, a)):
            if isinstance(v, SymFloat) and v.quot is not None and not is_floatlike(u) and zint(u) is not None:
                res.fx = ('addq', zint(u), v.quot[0], v.quot[1])
        return res
    if op == '-':
        return SymFloat(r=fl_of(ra - rb))
    if op == '/':
        if kb[0] == 'i' and z3.is_int_value(kb[1]) and kb[1].as_long() in (1, -1):
            return SymFloat(r=z3.simplify(ra / kb[1].as_long()))
        if not z3.is_rational_value(z3.simplify(rb)):
            e.stats['nonlinear'] += 1
        return SymFloat(r=fl_of(ra / rb))
    if op in ('//', '%'):
        # float floor-division and modulo by a constant divisor: Python computes them from fmod, which is exact;
        # q = floor(a/b) is an integer (kept exact while it stays below 2^53), a % b = a - b*q is exact as well
        if not z3.is_rational_value(z3.simplify(rb)):
            raise Unmodelled('float %s by a symbolic divisor' % op)
        q = z3.ToInt(ra / rb)
        if not SymBool(z3.And(q <= TWO53, q >= -TWO53)):
            raise Unmodelled('float %s with a quotient beyond 2^53' % op)
        if op == '//':
            return SymFloat(iz=z3.simplify(q))
        return SymFloat(r=z3.simplify(ra - rb * z3.ToReal(q)))
    raise Unmodelled('float op %s' % op)


def num_cmp(op, a, b):
    """Exact numeric comparison between int-like / float-like values (Python compares exactly)."""
    za, zb = zint(a), zint(b)
    if za is not None and zb is not None:
        x, y = za, zb
    else:
        ka, kb = _floatval_nofork(a), _floatval_nofork(b)
        if ka is None or kb is None:
            return NotImplemented
        x, y = ka, kb
    if op == '<':
        return mkbool(z3.simplify(x < y))
    if op == '<=':
        return mkbool(z3.simplify(x <= y))
    if op == '>':
        return mkbool(z3.simplify(x > y))
    if op == '>=':
        return mkbool(z3.simplify(x >= y))
    if op == '==':
        return mkbool(z3.simplify(x == y))
    if op == '!=':
        return mkbool(z3.simplify(x != y))
    raise AssertionError(op)


def _floatval_nofork(x):
    """Real term of the exact value of a number (ints are compared exactly with floats in Python)."""
    if isinstance(x, SymFloat):
        return x.real()
    zi = zint(x)
    if zi is not None:
        return z3.ToReal(zi)
    if isinstance(x, float):
        if x != x:
            raise Unmodelled('nan comparison')
        if x in (float('inf'), float('-inf')):
            raise Unmodelled('inf comparison')
        return to_fractionlike(x)
    return None


class SymInt(object):
    __slots__ = ('z',)
    __is_sym__ = True

    def __getattr__(self, name):
        if hasattr(int, name):
            raise Unmodelled('int.%s on a symbolic int' % name)
        raise AttributeError(name)

    def __init__(self, z):
        self.z = z

    def __repr__(self):
        return 'SymInt(%s)' % (self.z,)

    def __str__(self):
        raise Unmodelled('implicit str() of symbolic int')

    def __hash__(self):
        raise Unmodelled('hash of symbolic int')

    def __bool__(self):
        return E.cur().branch(self.z != 0)

    def __index__(self):
        raise Unmodelled('__index__ of symbolic int (C-level use of a symbolic integer)')

    def __int__(self):
        raise Unmodelled('__int__ of symbolic int')

    def __float__(self):
        raise Unmodelled('__float__ of symbolic int')

    # ---- arithmetic
    def _bin(self, o, f, r=False, nonlinear=False):
        oz = zint(o)
        if oz is None:
            return None
        if nonlinear and not z3.is_int_value(oz):
            E.cur().stats['nonlinear'] += 1
        return mkint(f(oz, self.z) if r else f(self.z, oz))

    def _arith(self, o, sym, f, r=False, nonlinear=False):
        if is_floatlike(o):
            return float_binop(sym, o, self) if r else float_binop(sym, self, o)
        res = self._bin(o, f, r, nonlinear)
        return NotImplemented if res is None else res

    def __add__(self, o): return self._arith(o, '+', lambda a, b: a + b)
    def __radd__(self, o): return self._arith(o, '+', lambda a, b: a + b, True)
    def __sub__(self, o): return self._arith(o, '-', lambda a, b: a - b)
    def __rsub__(self, o): return self._arith(o, '-', lambda a, b: a - b, True)
    def __mul__(self, o):
        if isinstance(o, (str, SymStr, list, tuple)):
            return _seq_repeat(o, self)
        return self._arith(o, '*', lambda a, b: a * b, False, True)
    def __rmul__(self, o):
        if isinstance(o, (str, SymStr, list, tuple)):
            return _seq_repeat(o, self)
        return self._arith(o, '*', lambda a, b: a * b, True, True)
    def __neg__(self): return mkint(-self.z)
    def __pos__(self): return self
    def __abs__(self): return mkint(zabs(self.z))
    def __invert__(self): return mkint(-self.z - 1)

    def __truediv__(self, o):
        if not is_numlike(o):
            return NotImplemented
        return float_binop('/', self, o)

    def __rtruediv__(self, o):
        if not is_numlike(o):
            return NotImplemented
        return float_binop('/', o, self)

    def _zerocheck(self, z, msg):
        if SymBool(z == 0):
            raise ZeroDivisionError(msg)

    def __floordiv__(self, o):
        if is_floatlike(o):
            return float_binop('//', self, o)
        oz = zint(o)
        if oz is None:
            return NotImplemented
        self._zerocheck(oz, 'integer division or modulo by zero')
        return mkint(fdiv(self.z, oz))

    def __rfloordiv__(self, o):
        if is_floatlike(o):
            return float_binop('//', o, self)
        oz = zint(o)
        if oz is None:
            return NotImplemented
        self._zerocheck(self.z, 'integer division or modulo by zero')
        return mkint(fdiv(oz, self.z))

    def __mod__(self, o):
        if is_floatlike(o):
            return float_binop('%', self, o)
        oz = zint(o)
        if oz is None:
            return NotImplemented
        self._zerocheck(oz, 'integer modulo by zero')
        return mkint(self.z - oz * fdiv(self.z, oz))

    def __rmod__(self, o):
        if isinstance(o, str):
            raise Unmodelled('%-formatting with symbolic int')
        if is_floatlike(o):
            return float_binop('%', o, self)
        oz = zint(o)
        if oz is None:
            return NotImplemented
        self._zerocheck(self.z, 'integer modulo by zero')
        return mkint(oz - self.z * fdiv(oz, self.z))

    def __divmod__(self, o):
        return (self // o, self % o)

    def __pow__(self, o, mod=None):
        if mod is not None:
            raise Unmodelled('3-arg pow')
        if isinstance(o, (SymInt, SymBool)):
            o = concretize_int(o, -400, 400, 'exponent')
        if isinstance(o, bool):
            o = int(o)
        if isinstance(o, int):
            if o >= 0:
                if o > 64:
                    raise Unmodelled('large exponent')
                r = z3.IntVal(1)
                for _ in range(o):
                    r = r * self.z
                if o >= 2:
                    E.cur().stats['nonlinear'] += 1
                return mkint(r)
            # negative exponent: float result 1/(x**-o) ; 0 ** negative raises
            if SymBool(self.z == 0):
                raise ZeroDivisionError('0.0 cannot be raised to a negative power')
            den = self ** (-o)
            return float_binop('/', 1.0, den)   # python computes pow() directly; relative error model covers both
        if is_floatlike(o):
            raise Unmodelled('int ** float')
        return NotImplemented

    def __rpow__(self, o, mod=None):
        if isinstance(o, float) and o > 0:
            from .models import uf_real, _realarg, _log_math_call
            rs = [_realarg(o, 'pow'), z3.ToReal(self.z)]
            _log_math_call('pow', rs)
            return SymFloat(r=uf_real('pow', *rs))
        if isinstance(o, (int, float)) and not isinstance(o, bool):
            k = concretize_int(self, -400, 400, 'exponent')
            return o ** k
        return NotImplemented

    def __and__(self, o):
        if isinstance(o, int) and not isinstance(o, bool) and o == 1:
            return mkint(self.z - 2 * fdiv(self.z, z3.IntVal(2)))
        raise Unmodelled('int & %r' % (o,))
    __rand__ = __and__

    # ---- comparisons
    def __lt__(self, o): return num_cmp('<', self, o)
    def __le__(self, o): return num_cmp('<=', self, o)
    def __gt__(self, o): return num_cmp('>', self, o)
    def __ge__(self, o): return num_cmp('>=', self, o)
    def __eq__(self, o):
        if not is_numlike(o):
            return NotImplemented
        return num_cmp('==', self, o)
    def __ne__(self, o):
        if not is_numlike(o):
            return NotImplemented
        return num_cmp('!=', self, o)

    # ---- conversions used by math.* models / round
    def __ceil__(self): return self
    def __floor__(self): return self
    def __trunc__(self): return self

    def __round__(self, nd=None):
        if nd is None:
            return self
        if isinstance(nd, (SymInt, SymBool)):
            nd = concretize_int(nd, -70, 70, 'round digits')
        if nd >= 0:
            return self
        m = 10 ** (-nd)
        # round half to even to a multiple of m (exact integer arithmetic, as int.__round__)
        q = fdiv(self.z, z3.IntVal(m))
        r = self.z - q * m
        twice = 2 * r
        up = z3.Or(twice > m, z3.And(twice == m, q - 2 * fdiv(q, z3.IntVal(2)) == 1))
        return mkint(z3.If(up, (q + 1) * m, q * m))


def _seq_repeat(seq, n):
    k = concretize_int(n, -1, 4000, 'sequence repeat count')
    return seq * k


def concretize_int(x, lo, hi, what='value'):
    """Fork over the concrete values of a symbolic int that the path condition allows inside
    [lo, hi]; Unmodelled if it may lie outside."""
    if isinstance(x, bool):
        return int(x)
    if isinstance(x, int):
        return x
    z = zint(x)
    e = E.cur()
    # fast: pinned?
    if SymBool(z3.Or(z < lo, z > hi)):
        raise Unmodelled('%s not bounded to [%d,%d] for concretisation' % (what, lo, hi))
    m = e.model()
    while True:
        v = m.eval(z, model_completion=True).as_long()
        if SymBool(z == v):
            return v
        m = e.model()


class SymFloat(object):
    """A double.  iz: Int term when the value is an exactly-known integer; else r: Real term of its value.
    quot=(x, y): the value is the correctly rounded quotient of the integers x / y (y != 0, not dividing x); its
    Real term (an fl application) is only built when arithmetic or a comparison needs it, because floor / ceil /
    trunc of such a quotient equal those of the exact rational whenever |x| < 2^53 (the rounding error
    |x/y| 2^-53 is below 1/|y|, the distance of a non-integral x/y from the nearest integer)."""
    __slots__ = ('iz', '_r', 'quot', 'dy', 'fx')
    __is_sym__ = True

    def __getattr__(self, name):
        if hasattr(float, name):
            raise Unmodelled('float.%s on a symbolic float' % name)
        raise AttributeError(name)

    def __init__(self, r=None, iz=None, quot=None, dy=None):
        self._r = r
        self.iz = iz
        self.quot = quot
        # dy=(num, k): the value is EXACTLY the dyadic rational num / 2^k (k >= 1, |num| <= 2^53): sums, differences and
        # products of such values are computed exactly while they stay representable, quotients are correctly rounded
        # quotients of integers (see float_binop)
        self.dy = dy
        self.fx = None   # ('addq', i, x, y): the value is fl(i + fl(x / y)) for integers i, x, y - kept so a harness can pose it in QF_FP
        if dy is not None and r is None:
            self._r = z3.ToReal(dy[0]) / z3.RealVal(2 ** dy[1])

    @property
    def r(self):
        if self._r is None and self.quot is not None:
            self._r = fl_of(z3.ToReal(self.quot[0]) / z3.ToReal(self.quot[1]))
        return self._r

    def _exact_quot(self):
        """(x, y) if floor/ceil/trunc may be taken on the exact rational, else None"""
        if self.quot is None:
            return None
        x, y = self.quot
        lo, hi = interval(x, E.cur().bounds)
        if lo is None or hi is None or max(abs(lo), abs(hi)) >= TWO53:
            return None
        return x, y

    def real(self):
        return z3.ToReal(self.iz) if self.iz is not None else self.r

    def __repr__(self):
        return 'SymFloat(%s)' % (self.iz if self.iz is not None else self.r,)

    def __str__(self):
        raise Unmodelled('implicit str() of symbolic float')

    def __hash__(self):
        raise Unmodelled('hash of symbolic float')

    def __bool__(self):
        return E.cur().branch(self.real() != 0)

    def __index__(self):
        raise TypeError("'float' object cannot be interpreted as an integer")

    def __float__(self):
        raise Unmodelled('__float__ of symbolic float')

    def _op(self, sym, o, r=False):
        if not is_numlike(o):
            return NotImplemented
        return float_binop(sym, o, self) if r else float_binop(sym, self, o)

    def __add__(self, o): return self._op('+', o)
    def __radd__(self, o): return self._op('+', o, True)
    def __sub__(self, o): return self._op('-', o)
    def __rsub__(self, o): return self._op('-', o, True)
    def __mul__(self, o): return self._op('*', o)
    def __rmul__(self, o): return self._op('*', o, True)
    def __truediv__(self, o): return self._op('/', o)
    def __rtruediv__(self, o): return self._op('/', o, True)
    def __floordiv__(self, o): return self._op('//', o)
    def __rfloordiv__(self, o): return self._op('//', o, True)
    def __mod__(self, o): return self._op('%', o)
    def __rmod__(self, o):
        if isinstance(o, str):
            raise Unmodelled('%-formatting with symbolic float')
        return self._op('%', o, True)

    def __neg__(self):
        if self.dy is not None:
            return SymFloat(dy=(z3.simplify(-self.dy[0]), self.dy[1]))
        return SymFloat(iz=-self.iz) if self.iz is not None else SymFloat(r=-self.r)

    def __pos__(self):
        return self

    def __abs__(self):
        if self.dy is not None:
            return SymFloat(dy=(zabs(self.dy[0]), self.dy[1]))
        return SymFloat(iz=zabs(self.iz)) if self.iz is not None else SymFloat(r=zabs(self.r))

    def __pow__(self, o, mod=None):
        if isinstance(o, int) and not isinstance(o, bool) and 0 <= o <= 8:
            r = 1.0
            for _ in range(o):
                r = self * r
            return r if o else 1.0
        if isinstance(o, (float, SymFloat)) or (isinstance(o, int) and not isinstance(o, bool)):
            # positive base ** real exponent: a transcendental value, uninterpreted but positive (x**y = exp(y ln x) > 0)
            from .models import uf_real, _realarg, _log_math_call
            rb, ro = self.real(), _realarg(o, 'pow')
            if SymBool(rb > 0):
                _log_math_call('pow', [rb, ro])
                g = uf_real('pow', rb, ro)
                E.cur().add(g > 0)
                return SymFloat(r=g)
            raise Unmodelled('non-positive float ** real exponent')
        raise Unmodelled('float ** value')

    def __rpow__(self, o, mod=None):
        if isinstance(o, (int, float)) and not isinstance(o, bool) and o > 0:
            # positive constant ** symbolic float (math.e ** x): a transcendental value, uninterpreted
            from .models import uf_real, _realarg, _log_math_call
            rs = [_realarg(o, 'pow'), self.real()]
            _log_math_call('pow', rs)
            return SymFloat(r=uf_real('pow', *rs))
        raise Unmodelled('value ** float')

    def __lt__(self, o): return num_cmp('<', self, o)
    def __le__(self, o): return num_cmp('<=', self, o)
    def __gt__(self, o): return num_cmp('>', self, o)
    def __ge__(self, o): return num_cmp('>=', self, o)
    def __eq__(self, o):
        if not is_numlike(o):
            return NotImplemented
        return num_cmp('==', self, o)
    def __ne__(self, o):
        if not is_numlike(o):
            return NotImplemented
        return num_cmp('!=', self, o)

    # exact operations on the value
    def __floor__(self):
        if self.iz is not None:
            return mkint(self.iz)
        if self.dy is not None:
            return mkint(fdiv(self.dy[0], z3.IntVal(2 ** self.dy[1])))
        q = self._exact_quot()
        if q is not None:
            return mkint(fdiv(q[0], q[1]))
        return mkint(z3.ToInt(self.r))

    def __ceil__(self):
        if self.iz is not None:
            return mkint(self.iz)
        if self.dy is not None:
            return mkint(-fdiv(-self.dy[0], z3.IntVal(2 ** self.dy[1])))
        q = self._exact_quot()
        if q is not None:
            return mkint(-fdiv(-q[0], q[1]))
        return mkint(-z3.ToInt(-self.r))

    def __trunc__(self):
        if self.iz is not None:
            return mkint(self.iz)
        if self.dy is not None:
            n, d = self.dy[0], z3.IntVal(2 ** self.dy[1])
            return mkint(z3.simplify(z3.If(n < 0, -fdiv(-n, d), fdiv(n, d))))
        q = self._exact_quot()
        if q is not None:
            fl_, ce = fdiv(q[0], q[1]), -fdiv(-q[0], q[1])
            neg = z3.Or(z3.And(q[0] < 0, q[1] > 0), z3.And(q[0] > 0, q[1] < 0))
            return mkint(z3.simplify(z3.If(neg, ce, fl_)))
        return mkint(z3.If(self.r >= 0, z3.ToInt(self.r), -z3.ToInt(-self.r)))

    __int__ = None  # int() goes through the model in models.py

    def is_integer(self):
        if self.iz is not None:
            return True
        return mkbool(z3.IsInt(self.r))

    def __round__(self, nd=None):
        if nd is None:
            # round half even to an int (exact on the value)
            fl = z3.ToInt(self.real())
            frac = self.real() - z3.ToReal(fl)
            up = z3.Or(frac > z3.RealVal('1/2'), z3.And(frac == z3.RealVal('1/2'), fl - 2 * fdiv(fl, z3.IntVal(2)) == 1))
            return mkint(z3.If(up, fl + 1, fl))
        if self.iz is not None:
            if isinstance(nd, (SymInt, SymBool)):
                nd = concretize_int(nd, -30, 30, 'round digits')
            if nd >= 0:
                return self
            res = SymInt(self.iz).__round__(nd)
            return _mkfloat_exact_int(zint(res))
        if self.dy is not None:
            # float.__round__(ndigits) rounds the EXACT binary value half-to-even in decimal and converts the decimal
            # back correctly rounded: q = rhe(num * 10^nd / 2^k), result = the double nearest to q / 10^nd
            if isinstance(nd, (SymInt, SymBool)):
                nd = concretize_int(nd, -30, 30, 'round digits')
            num, k = self.dy
            if nd >= 0:
                a, b = num * (10 ** nd), z3.IntVal(2 ** k)
            else:
                a, b = num, z3.IntVal(2 ** k * 10 ** (-nd))
            fl = fdiv(a, b)
            rem2 = 2 * (a - b * fl)                  # twice the remainder, compared with b
            up = z3.Or(rem2 > b, z3.And(rem2 == b, fl - 2 * fdiv(fl, z3.IntVal(2)) == 1))
            q = z3.simplify(z3.If(up, fl + 1, fl))
            if nd >= 0:
                return int_truediv(q, z3.IntVal(10 ** nd))
            return _mkfloat_exact_int(z3.simplify(q * (10 ** (-nd))))
        raise Unmodelled('round(float, digits)')


del SymFloat.__int__


# ------------------------------------------------------------------------------------------------
# strings
def cp_const(c):
    return c if isinstance(c, int) else None


def zcp(c):
    return z3.IntVal(c) if isinstance(c, int) else c


def mkstr(cps):
    cps = tuple(cps)
    if all(isinstance(c, int) for c in cps):
        return ''.join(map(chr, cps))
    return SymStr(cps)


def cps_of(x):
    if isinstance(x, SymStr):
        return x.cps
    if isinstance(x, str):
        return tuple(map(ord, x))
    return None


def _simpl_cp(c):
    if isinstance(c, int):
        return c
    c = z3.simplify(c)
    if z3.is_int_value(c):
        return c.as_long()
    return c


_CASE_TABLES = {}


def _ranges(pred):
    out = []
    start = None
    for cp in range(0x110000):
        if pred(cp):
            if start is None:
                start = cp
        elif start is not None:
            out.append((start, cp - 1))
            start = None
    if start is not None:
        out.append((start, 0x10FFFF))
    return out


def in_ranges(c, ranges):
    if not ranges:
        return z3.BoolVal(False)
    return z3.Or(*[(c == lo) if lo == hi else z3.And(c >= lo, c <= hi) for lo, hi in ranges])


def case_affected(kind):
    """Ranges of non-ASCII code points that str.upper()/lower() changes (computed from CPython)."""
    t = _CASE_TABLES.get(kind)
    if t is None:
        if kind == 'upper':
            t = _ranges(lambda cp: cp >= 128 and chr(cp).upper() != chr(cp))
        elif kind == 'lower':
            t = _ranges(lambda cp: cp >= 128 and chr(cp).lower() != chr(cp))
        elif kind == 'title':
            t = _ranges(lambda cp: cp >= 128 and (chr(cp).upper() != chr(cp) or chr(cp).lower() != chr(cp)
                                                     or chr(cp).title() != chr(cp) or chr(cp).isupper() or chr(cp).islower() or chr(cp).istitle()))
        elif kind == 'space':
            t = _ranges(lambda cp: chr(cp).isspace())
        _CASE_TABLES[kind] = t
    return t


_CASE_SPECIAL = {}


def _case_special(kind):
    """non-ASCII code points whose upper()/lower() is not a single non-ASCII character:
       {cp: mapped string} for those whose image contains an ASCII character, and {length: [cps]} for the other
       multi-character images (computed from CPython)."""
    t = _CASE_SPECIAL.get(kind)
    if t is None:
        f = (lambda ch: ch.upper()) if kind == 'upper' else (lambda ch: ch.lower())
        ascii_img = {}
        bylen = {}
        for lo, hi in case_affected(kind):
            for cp in range(lo, hi + 1):
                u = f(chr(cp))
                if any(ord(x) < 128 for x in u):
                    ascii_img[cp] = u
                elif len(u) != 1:
                    bylen.setdefault(len(u), []).append(cp)
        t = (ascii_img, bylen)
        _CASE_SPECIAL[kind] = t
    return t


def _nonascii_casemap(c, kind):
    """image of a symbolic non-ASCII cased character under upper()/lower(): the few characters whose image contains ASCII
    (sharp s, dotless i, long s, ligatures, Kelvin sign, ...) are forked individually and mapped by CPython itself;
    every other image is one or more non-ASCII characters, represented by fresh symbolic non-ASCII code points
    (an over-approximation: nothing downstream can depend on which non-ASCII character it is except by comparing,
    and witnesses are replayed on the real code)."""
    e = E.cur()
    key = ('case', kind, c.get_id())
    hit = e.uf_cache.get(key)
    if hit is not None:
        return list(hit[1])
    ascii_img, bylen = _case_special(kind)
    res = None
    for cp, img in ascii_img.items():
        if SymBool(c == cp):
            res = [ord(x) for x in img]
            break
    if res is None:
        n = 1
        for ln, cps in bylen.items():
            if SymBool(z3.Or(*[c == k for k in cps])):
                n = ln
                break
        res = []
        for i in range(n):
            r = z3.Int('case_%s_%d_%d' % (kind, e.nfresh, i))
            e.nfresh += 1
            e.add(r >= 128, r <= 0x10FFFF)
            res.append(r)
    e.uf_cache[key] = (c, res)
    return list(res)


class SymStr(object):
    """A str of concrete length; each element of cps is an int code point or a z3 Int term."""
    __slots__ = ('cps',)
    __is_sym__ = True

    def __init__(self, cps):
        self.cps = tuple(cps)

    def __repr__(self):
        return 'SymStr(%s)' % (list(self.cps),)

    def __str__(self):
        raise Unmodelled('implicit str() of symbolic str (C-level use)')

    def __hash__(self):
        raise Unmodelled('hash of symbolic str')

    def __len__(self):
        return len(self.cps)

    def __bool__(self):
        return len(self.cps) > 0

    def __iter__(self):
        for c in self.cps:
            yield mkstr((c,))

    def __add__(self, o):
        oc = cps_of(o)
        if oc is None:
            return NotImplemented
        return mkstr(self.cps + oc)

    def __radd__(self, o):
        oc = cps_of(o)
        if oc is None:
            return NotImplemented
        return mkstr(oc + self.cps)

    def __mul__(self, n):
        if isinstance(n, (SymInt, SymBool)):
            n = concretize_int(n, -1, 4000, 'str repeat')
        if not isinstance(n, int):
            return NotImplemented
        return mkstr(self.cps * n)
    __rmul__ = __mul__

    def __mod__(self, o):
        raise Unmodelled('%-formatting of symbolic str')

    # ---- comparisons
    def _eqz(self, oc):
        if len(oc) != len(self.cps):
            return z3.BoolVal(False)
        return z3.And(*[zcp(a) == zcp(b) for a, b in zip(self.cps, oc)]) if oc else z3.BoolVal(True)

    def __eq__(self, o):
        oc = cps_of(o)
        if oc is None:
            return NotImplemented
        return mkbool(z3.simplify(self._eqz(oc)))

    def __ne__(self, o):
        oc = cps_of(o)
        if oc is None:
            return NotImplemented
        return mkbool(z3.simplify(z3.Not(self._eqz(oc))))

    @staticmethod
    def _ltz(a, b, strict=True):
        # lexicographic by code point
        if not a:
            return z3.BoolVal(len(b) > 0 if strict else True)
        if not b:
            return z3.BoolVal(False)
        x, y = zcp(a[0]), zcp(b[0])
        return z3.Or(x < y, z3.And(x == y, SymStr._ltz(a[1:], b[1:], strict)))

    def _cmp(self, o, swap, strict):
        oc = cps_of(o)
        if oc is None:
            return NotImplemented
        a, b = (oc, self.cps) if swap else (self.cps, oc)
        return mkbool(z3.simplify(SymStr._ltz(a, b, strict)))

    def __lt__(self, o): return self._cmp(o, False, True)
    def __le__(self, o): return self._cmp(o, False, False)
    def __gt__(self, o): return self._cmp(o, True, True)
    def __ge__(self, o): return self._cmp(o, True, False)

    # ---- indexing
    def __getitem__(self, i):
        if isinstance(i, slice):
            if i.step not in (None, 1):
                if i.step == -1 and i.start is None and i.stop is None:
                    return mkstr(self.cps[::-1])
                raise Unmodelled('str slice step')
            n = len(self.cps)
            a = resolve_slice_bound(i.start, n, 0)
            b = resolve_slice_bound(i.stop, n, n)
            return mkstr(self.cps[a:b])
        if isinstance(i, (SymInt, SymBool)):
            n = len(self.cps)
            if SymBool(z3.Or(zint(i) >= n, zint(i) < -n)):
                raise IndexError('string index out of range')
            i = concretize_int(i, -n, n - 1, 'str index')
        return mkstr((self.cps[i],))

    def __contains__(self, sub):
        sc = cps_of(sub)
        if sc is None:
            raise TypeError("'in <string>' requires string as left operand")
        return self.find(sub) >= 0

    # ---- methods
    def _match_at(self, i, sc):
        return z3.And(*[zcp(self.cps[i + k]) == zcp(sc[k]) for k in range(len(sc))]) if sc else z3.BoolVal(True)

    def find(self, sub, start=0):
        sc = cps_of(sub)
        if sc is None:
            raise TypeError('must be str')
        if len(sc) == 1 and start == 0 and all(isinstance(c, int) for c in self.cps) and not isinstance(sc[0], int):
            # one symbolic character looked up in a concrete string: an ITE chain, no fork
            # maximal runs of consecutive code points (first occurrences only)
            runs = []
            seen = set()
            for i, c in enumerate(self.cps):
                if c in seen:
                    continue
                seen.add(c)
                if runs and runs[-1][1] + runs[-1][2] == c and runs[-1][0] + runs[-1][2] == i:
                    runs[-1][2] += 1
                else:
                    runs.append([i, c, 1])
            r = z3.IntVal(-1)
            for i, c0, n in reversed(runs):
                r = z3.If(z3.And(sc[0] >= c0, sc[0] <= c0 + n - 1), sc[0] - c0 + i, r)
            return mkint(r)
        for i in range(start, len(self.cps) - len(sc) + 1):
            if SymBool(z3.simplify(self._match_at(i, sc))):
                return i
        return -1

    def index(self, sub):
        r = self.find(sub)
        if r < 0:
            raise ValueError('substring not found')
        return r

    def count(self, sub):
        sc = cps_of(sub)
        if not sc:
            return len(self.cps) + 1
        n = 0
        i = 0
        while i <= len(self.cps) - len(sc):
            if SymBool(z3.simplify(self._match_at(i, sc))):
                n += 1
                i += len(sc)
            else:
                i += 1
        return n

    def startswith(self, p):
        pc = cps_of(p)
        if len(pc) > len(self.cps):
            return False
        return mkbool(z3.simplify(self._match_at(0, pc)))

    def endswith(self, p):
        pc = cps_of(p)
        if len(pc) > len(self.cps):
            return False
        return mkbool(z3.simplify(self._match_at(len(self.cps) - len(pc), pc)))

    def replace(self, old, new, count=-1):
        oc, nc = cps_of(old), cps_of(new)
        if oc is None or nc is None:
            raise TypeError('replace() argument must be str')
        if count != -1:
            raise Unmodelled('str.replace with count')
        out = []
        if not oc:
            for c in self.cps:
                out.extend(nc)
                out.append(c)
            out.extend(nc)
            return mkstr(out)
        i = 0
        n = len(self.cps)
        while i < n:
            if i <= n - len(oc) and SymBool(z3.simplify(self._match_at(i, oc))):
                out.extend(nc)
                i += len(oc)
            else:
                out.append(self.cps[i])
                i += 1
        return mkstr(out)

    def _casemap(self, kind):
        out = []
        for c in self.cps:
            if isinstance(c, int):
                s = chr(c).upper() if kind == 'upper' else chr(c).lower()
                out.extend(map(ord, s))
                continue
            if SymBool(c >= 128):
                if SymBool(in_ranges(c, case_affected(kind))):
                    out.extend(_nonascii_casemap(c, kind))
                else:
                    out.append(c)
                continue
            if kind == 'upper':
                out.append(z3.If(z3.And(c >= 97, c <= 122), c - 32, c))
            else:
                out.append(z3.If(z3.And(c >= 65, c <= 90), c + 32, c))
        return mkstr(_simpl_cp(c) for c in out)

    def upper(self):
        return self._casemap('upper')

    def lower(self):
        return self._casemap('lower')

    def title(self):
        out = []
        prev_cased = z3.BoolVal(False)
        for c in self.cps:
            zc = zcp(c)
            if not isinstance(c, int) and SymBool(c >= 128):
                if SymBool(in_ranges(c, case_affected('title'))):
                    raise Unmodelled('str.title() of a non-ASCII cased character')
                out.append(c)
                prev_cased = z3.BoolVal(False)
                continue
            if isinstance(c, int) and c >= 128:
                raise Unmodelled('str.title() with concrete non-ASCII in symbolic string')
            is_up = z3.And(zc >= 65, zc <= 90)
            is_lo = z3.And(zc >= 97, zc <= 122)
            lowered = z3.If(is_up, zc + 32, zc)
            uppered = z3.If(is_lo, zc - 32, zc)
            out.append(_simpl_cp(z3.If(prev_cased, lowered, uppered)))
            prev_cased = z3.simplify(z3.Or(is_up, is_lo))
        return mkstr(out)

    def _is_strip_char(self, c, chars):
        if chars is None:
            return in_ranges(zcp(c), case_affected('space'))
        cc = cps_of(chars)
        return z3.Or(*[zcp(c) == zcp(k) for k in cc]) if cc else z3.BoolVal(False)

    def strip(self, chars=None):
        return self.lstrip(chars).rstrip(chars) if True else None

    def lstrip(self, chars=None):
        i = 0
        while i < len(self.cps) and SymBool(z3.simplify(self._is_strip_char(self.cps[i], chars))):
            i += 1
        return mkstr(self.cps[i:])

    def rstrip(self, chars=None):
        j = len(self.cps)
        while j > 0 and SymBool(z3.simplify(self._is_strip_char(self.cps[j - 1], chars))):
            j -= 1
        return mkstr(self.cps[:j])

    def rjust(self, width, fill=' '):
        if isinstance(width, (SymInt, SymBool)):
            width = concretize_int(width, -1, 64, 'rjust width')
        pad = max(0, width - len(self.cps))
        return mkstr(cps_of(fill) * pad + self.cps)

    def ljust(self, width, fill=' '):
        if isinstance(width, (SymInt, SymBool)):
            width = concretize_int(width, -1, 64, 'ljust width')
        pad = max(0, width - len(self.cps))
        return mkstr(self.cps + cps_of(fill) * pad)

    def zfill(self, width):
        raise Unmodelled('zfill')

    def join(self, items):
        items = list(items)
        out = []
        for k, it in enumerate(items):
            ic = cps_of(it)
            if ic is None:
                raise TypeError('sequence item %d: expected str instance, %s found' % (k, _tname(it)))
            if k:
                out.extend(self.cps)
            out.extend(ic)
        return mkstr(out)

    def split(self, sep=None, maxsplit=-1):
        if maxsplit != -1:
            raise Unmodelled('str.split() with maxsplit')
        if sep is None:
            # runs of str.isspace() characters separate, no empty parts: one fork per character on its whitespace class
            parts = []
            cur = []
            for c in self.cps:
                if SymBool(z3.simplify(self._is_strip_char(c, None))):
                    if cur:
                        parts.append(mkstr(cur))
                        cur = []
                else:
                    cur.append(c)
            if cur:
                parts.append(mkstr(cur))
            return parts
        sc = cps_of(sep)
        parts = []
        cur = []
        i = 0
        n = len(self.cps)
        while i < n:
            if i <= n - len(sc) and SymBool(z3.simplify(self._match_at(i, sc))):
                parts.append(mkstr(cur))
                cur = []
                i += len(sc)
            else:
                cur.append(self.cps[i])
                i += 1
        parts.append(mkstr(cur))
        return parts

    def _allz(self, f):
        if not self.cps:
            return False
        return mkbool(z3.simplify(z3.And(*[f(zcp(c)) for c in self.cps])))

    def isdigit(self):
        for c in self.cps:
            if not isinstance(c, int) and SymBool(c >= 128):
                raise Unmodelled('isdigit on non-ASCII')
        return self._allz(lambda c: z3.And(c >= 48, c <= 57))

    def encode(self, *a, **k):
        raise Unmodelled('str.encode')

    def translate(self, table):
        """str.translate with a dict table {ordinal: None | str | int}: keys mapped to None are grouped into ranges so a
        deletion table costs one fork per range, other keys one fork each"""
        if not isinstance(table, dict):
            raise Unmodelled('str.translate with a non-dict table')
        dele = sorted(k for k, v in table.items() if v is None)
        ranges = []
        for k in dele:
            if ranges and ranges[-1][1] + 1 == k:
                ranges[-1][1] = k
            else:
                ranges.append([k, k])
        others = [(k, v) for k, v in table.items() if v is not None]
        out = []
        for c in self.cps:
            if isinstance(c, int):
                out.extend(cps_of(chr(c).translate(table)))
                continue
            if SymBool(in_ranges(c, ranges)):
                continue
            done = False
            for k, v in others:
                if SymBool(c == k):
                    out.extend(cps_of(v) if isinstance(v, str) else [v])
                    done = True
                    break
            if not done:
                out.append(c)
        return mkstr(out)

    def __getattr__(self, name):
        # a str method the proxy does not implement must never look like a missing attribute to the code under test
        if hasattr(str, name):
            raise Unmodelled('str.%s on a symbolic str' % name)
        raise AttributeError(name)

    def format(self, *a, **k):
        raise Unmodelled('str.format')


def _tname(x):
    if isinstance(x, SymInt):
        return 'int'
    if isinstance(x, SymBool):
        return 'bool'
    if isinstance(x, SymFloat):
        return 'float'
    if isinstance(x, SymStr):
        return 'str'
    return type(x).__name__


def resolve_slice_bound(b, n, default):
    """Python's slice-bound clipping for a sequence of length n; forks on a symbolic bound."""
    if b is None:
        return default
    if isinstance(b, (SymInt, SymBool)):
        z = zint(b)
        if SymBool(z >= n):
            return n
        if SymBool(z <= -n):
            return 0
        v = concretize_int(b, -n + 1, n - 1, 'slice bound')
        return v + n if v < 0 else v
    if isinstance(b, SymFloat) or isinstance(b, float):
        raise TypeError('slice indices must be integers or None or have an __index__ method')
    if not isinstance(b, int):
        raise TypeError('slice indices must be integers or None or have an __index__ method')
    if b < 0:
        return max(0, n + b)
    return min(b, n)
