"""Runs the harness cases of one property: symbolic exploration in a process pool, replay of every
candidate on the pristine code, known-finding handling, evidence."""
import importlib
import json
import multiprocessing
import os
import pkgutil
import subprocess
import sys
import time
import traceback
import z3

from . import engine as E
from . import loader, models, spec
from . import symre  # noqa: registers regex / fnmatch models
from . import dates  # noqa: registers datetime models
from .engine import Unmodelled, UnwindExceeded, PathAbort, CaseDeadline
from .harness import REGISTRY, Env, Raised, for_property
from .values import SymInt, SymBool, SymFloat, SymStr, zbool

VERIF = os.path.dirname(os.path.dirname(os.path.abspath(__file__)))
KF_FILE = os.path.join(VERIF, 'known_findings.json')


def load_harnesses():
    from . import props
    for m in pkgutil.iter_modules(props.__path__):
        importlib.import_module('vf.props.' + m.name)


def load_known_findings():
    if not os.path.exists(KF_FILE):
        return []
    return json.load(open(KF_FILE)).get('findings', [])


# ------------------------------------------------------------------------------------------------
# replay client (one pristine server process per worker)
class ReplayClient(object):
    def __init__(self, scratch):
        self.scratch = scratch
        self.proc = None
        self.count = 0

    def _start(self):
        env = dict(os.environ)
        env['PYTHONPATH'] = VERIF
        env['PYTHONDONTWRITEBYTECODE'] = '1'
        self.proc = subprocess.Popen([sys.executable, '-m', 'vf.replay_server', self.scratch], stdin=subprocess.PIPE,
                                     stdout=subprocess.PIPE, stderr=subprocess.DEVNULL, env=env, cwd=VERIF, text=True)

    def call(self, hname, params, inputs_json, timeout=120):
        if self.proc is None or self.proc.poll() is not None:
            self._start()
        self.count += 1
        req = json.dumps({'h': hname, 'p': params, 'i': inputs_json})
        try:
            self.proc.stdin.write(req + '\n')
            self.proc.stdin.flush()
            import select
            r, _, _ = select.select([self.proc.stdout], [], [], timeout)
            if not r:
                self.proc.kill()
                self.proc = None
                return {'status': 'hang', 'detail': 'no answer in %ds wall' % timeout}
            line = self.proc.stdout.readline()
            if not line:
                self.proc = None
                return {'status': 'crash', 'detail': 'replay server died'}
            return json.loads(line)
        except (BrokenPipeError, OSError) as ex:
            self.proc = None
            return {'status': 'crash', 'detail': str(ex)}

    def close(self):
        if self.proc is not None:
            try:
                self.proc.stdin.close()
                self.proc.wait(timeout=5)
            except Exception:
                self.proc.kill()
            self.proc = None


# ------------------------------------------------------------------------------------------------
_W = {}   # per-process state


def _worker_init(scratch, with_ply):
    _W['scratch'] = scratch
    _W['hot'] = sys.modules.get('hotxlfp') or loader.install(scratch, with_ply=with_ply)
    _W['env'] = Env(_W['hot'], True)
    _W['replay'] = ReplayClient(scratch)
    _W['funcs'] = set()


def region_value(expr, inp, params):
    ns = {'And': spec.And, 'Or': spec.Or, 'Not': spec.Not, 'Implies': spec.Implies, 'len': len, 'p': params}
    ns.update(inp)
    return spec.tb(eval(expr, {'__builtins__': {}}, ns))


def conjuncts(z):
    """split a postcondition into separately checkable conjuncts: And(...), and Or(g, And(...)) distributed"""
    z = z3.simplify(z)
    if z3.is_and(z):
        out = []
        for c in z.children():
            out.extend(conjuncts(c))
        return out
    if z3.is_or(z):
        ch = z.children()
        ands = [c for c in ch if z3.is_and(c)]
        if len(ands) == 1 and len(ands[0].children()) <= 12:
            rest = [c for c in ch if not z3.is_and(c)]
            return [z3.Or(*(rest + [c])) for c in ands[0].children()]
    return [z]


def _leaves(v, out):
    if isinstance(v, (SymInt, SymBool, SymFloat, SymStr)) or getattr(v, '__is_sym__', False):
        out.append(v)
    elif isinstance(v, (list, tuple)):
        for x in v:
            _leaves(x, out)
    elif isinstance(v, dict):
        for x in v.values():
            _leaves(x, out)


def blocking_clause(inp, model):
    leaves = []
    _leaves(inp, leaves)
    diffs = []
    for v in leaves:
        if isinstance(v, SymInt):
            diffs.append(v.z != model.eval(v.z, model_completion=True))
        elif isinstance(v, SymBool):
            diffs.append(v.z != model.eval(v.z, model_completion=True))
        elif isinstance(v, SymFloat):
            if v.iz is None and v._r is None and v.quot is not None:
                for t in v.quot:
                    diffs.append(t != model.eval(t, model_completion=True))
                continue
            t = v.iz if v.iz is not None else v.r
            diffs.append(t != model.eval(t, model_completion=True))
        elif isinstance(v, SymStr):
            for c in v.cps:
                if not isinstance(c, int):
                    diffs.append(c != model.eval(c, model_completion=True))
        else:
            f = getattr(v, '__sym_block__', None)
            if f:
                diffs.extend(f(model))
    return z3.Or(*diffs) if diffs else z3.BoolVal(False)


def _diversify(e, inp, replay, seed, budget=120):
    import random
    rnd = random.Random(seed * 7919 + 13)
    leaves = []
    _leaves(inp, leaves)
    ints = []
    for v in leaves:
        if isinstance(v, SymInt):
            ints.append(v.z)
        elif getattr(v, '__is_sym__', False) and hasattr(v, 'ord'):
            ints.extend([t for t in (getattr(v, 'ord', None), getattr(v, 'us', None)) if t is not None and not z3.is_int_value(t)])
    if not ints:
        return None
    old_to = e.z3_first_ms
    tried = 0
    for _ in range(budget * 2):
        if tried >= budget or (e.deadline and time.time() > e.deadline - 5):
            break
        e.solver.push()
        try:
            for z in rnd.sample(ints, min(len(ints), 2)):
                m = rnd.choice([3, 7, 11, 60, 97, 1000, 3600, 86400])
                e.solver.add(z % m == rnd.randrange(m))
            try:
                if not e.check():
                    continue
            except (Unmodelled, CaseDeadline):
                continue
            tried += 1
            inp_c = spec.concretize(inp, e.get_model())
            rr = replay(inp_c)
            if rr.get('status') in ('violated', 'hang', 'raised'):
                return inp_c, rr
        finally:
            e.solver.pop()
    return None


def run_case(job):
    """never lets the watchdog's exception escape into the pool (a lost worker would hang the whole check)"""
    import signal
    hname, params, tier, kfs, seed = job
    t0 = time.time()
    try:
        return _run_case(job)
    except CaseDeadline:
        return dict(harness=hname, params=params, paths=0, status={'deadline': 1}, violations=[], known=[], samples=[], replays=0,
                    spurious=0, reach=0, wall=round(time.time() - t0, 2), unmodelled_calls={},
                    undecided=[{'why': 'deadline: watchdog fired outside the exploration (replays of undecided paths)'}])
    finally:
        try:
            signal.setitimer(signal.ITIMER_REAL, 0)
        except (ValueError, AttributeError):
            pass


def _run_case(job):
    hname, params, tier, kfs, seed = job
    h = REGISTRY[hname]
    env = _W['env']
    rc = _W['replay']
    t0 = time.time()
    deadline = t0 + h.case_timeout_s[tier]
    eng = E.Engine(max_decisions=h.max_decisions, max_ticks=h.max_ticks,
                   solver_timeout_ms=(h.solver_timeout_ms[tier] if isinstance(h.solver_timeout_ms, dict) else h.solver_timeout_ms),
                   deadline=deadline)
    res = dict(harness=hname, params=params, paths=0, status={}, violations=[], known=[], undecided=[], samples=[],
               replays=0, spurious=0, reach=0)
    my_kfs = [k for k in kfs if k.get('harness') == hname and k.get('status', 'open') == 'open']
    models.UNMODELLED_LOG.clear()
    # watchdog: a C-level operation that never returns (or ignores the engine's budgets) must not hang the pool
    import signal

    def _alarm(signum, frame):
        raise CaseDeadline()
    try:
        signal.signal(signal.SIGALRM, _alarm)
        signal.setitimer(signal.ITIMER_REAL, h.case_timeout_s[tier] + 45)
    except (ValueError, AttributeError):
        pass

    rto = getattr(h, 'replay_timeout_s', 120)

    def replay(inp_c):
        res['replays'] += 1
        return rc.call(hname, params, spec.enc(inp_c), timeout=rto)

    if hasattr(h, 'decide'):
        # engines other than S (LR-BMC, ...) decide the case themselves and use the common replay / reporting
        try:
            r = h.decide(env, params, tier, lambda inp_c: rc.call(hname, params, spec.enc(inp_c)), deadline)
        except Exception as ex:
            r = dict(res, harness_error=''.join(traceback.format_exception(type(ex), ex, ex.__traceback__))[-3000:])
        r.setdefault('wall', round(time.time() - t0, 2))
        r.update(harness=hname, params=params)
        r.setdefault('unmodelled_calls', {})
        return r

    def one(e):
        inp = h.build(e, params)
        e.inputs = inp
        try:
            out = h.run(env, inp, params)
        except (Unmodelled, UnwindExceeded, PathAbort, CaseDeadline):
            raise
        except Exception as ex:
            out = Raised(ex)
        ok = spec.tb(h.post(env, inp, out, params))
        z = zbool(ok)
        regions = []
        for k in my_kfs:
            try:
                regions.append(zbool(region_value(k['region'], inp, params)))
            except (Unmodelled, UnwindExceeded, PathAbort):
                raise
        info = {'cands': []}
        queries = []
        for cj in conjuncts(z):
            nz = z3.Not(cj)
            outside = z3.And(nz, *[z3.Not(r) for r in regions]) if regions else nz
            queries.append((None, outside))
            queries.extend((k, z3.And(nz, r)) for k, r in zip(my_kfs, regions))
        found_plain = False
        for k, q in queries:
            if k is None and found_plain:
                continue
            e.solver.push()
            e.solver.add(q)
            tries = 0
            while tries < 6:
                tries += 1
                if not e.check():
                    break
                m = e.get_model()
                inp_c = spec.concretize(inp, m)
                rr = replay(inp_c)
                if rr.get('status') in ('violated', 'hang', 'raised'):
                    info['cands'].append((k, inp_c, rr))
                    if k is None:
                        found_plain = True
                    break
                if rr.get('status') not in ('ok',):
                    # the replay itself failed (harness-side error, crash): never counted as 'spurious'
                    info['cands'].append(('undecided', None, {'detail': 'replay %s: %s' % (rr.get('status'), str(rr.get('detail'))[-300:])}))
                    res['replay_errors'] = res.get('replay_errors', 0) + 1
                    break
                res['spurious'] += 1
                if len(res.setdefault('spurious_examples', [])) < 3:
                    res['spurious_examples'].append({'query': str(q)[:1500], 'inputs': spec.enc(inp_c), 'replay': rr})
                e.solver.add(blocking_clause(inp, m))
            else:
                # The abstraction (float rounding, stubs) admits this violation but six witnesses did not reproduce.
                # Bug-hunting sweep: diversify the witnesses with random residue constraints on the integer inputs
                # and replay each; a reproducing one is reported (flagged bug_hunting_only), otherwise undecided.
                hit = _diversify(e, inp, replay, seed)
                if hit is not None:
                    info['cands'].append((k, hit[0], dict(hit[1], bug_hunting_only=True)))
                    if k is None:
                        found_plain = True
                else:
                    info['cands'].append(('undecided', None, {'detail': 'only spurious witnesses in 6 tries (+ diversified sweep)'}))
            e.solver.pop()
        # sample of this path (vacuity guard: the assertion was reached with a satisfiable path condition)
        if len(res['samples']) < 4 or res['reach'] < 1:
            if e.check():
                m = e.get_model()
                try:
                    res['samples'].append({'inputs': spec.enc(spec.concretize(inp, m)), 'params': params, 'harness': hname})
                except Exception:
                    pass
        res['reach'] += 1
        return info

    try:
        results = eng.explore(one)
    except CaseDeadline:
        results = []
        eng.truncated = True
    except Exception as ex:
        res['harness_error'] = ''.join(traceback.format_exception(type(ex), ex, ex.__traceback__))[-3000:]
        results = []
    for r in results:
        res['status'][r.status] = res['status'].get(r.status, 0) + 1
        if r.status == 'ok':
            for k, inp_c, rr in r.value['cands']:
                if k == 'undecided':
                    res['undecided'].append({'why': rr['detail'], 'decisions': len(r.decisions)})
                elif k is None:
                    res['violations'].append({'inputs': spec.enc(inp_c), 'replay': rr})
                else:
                    res['known'].append({'finding': k['id'], 'inputs': spec.enc(inp_c), 'replay': rr})
        elif r.status in ('unmodelled', 'unwind', 'deadline'):
            entry = {'why': '%s: %s' % (r.status, r.detail), 'decisions': len(r.decisions)}
            res['undecided'].append(entry)
    # safety net / termination: replay one model of every undecided path (needs the path's inputs: re-run prefix)
    und_paths = [r for r in results if r.status in ('unmodelled', 'unwind', 'deadline')][:40]
    for r in und_paths:
        wit = _witness_of_path(h, env, eng, r, params)
        if wit is None:
            continue
        rr = replay(wit)
        st = rr.get('status')
        res.setdefault('undecided_replays', []).append({'path': r.status, 'inputs': spec.enc(wit), 'replay': rr})
        if st in ('violated', 'raised') or (st == 'hang' and h.termination):
            inside = None
            for k in my_kfs:
                try:
                    if region_value(k['region'], wit, params) is True:
                        inside = k
                except Exception:
                    pass
            if inside is None:
                res['violations'].append({'inputs': spec.enc(wit), 'replay': rr, 'bug_hunting_only': True,
                                          'path': r.status + ': ' + str(r.detail)})
            else:
                res['known'].append({'finding': inside['id'], 'inputs': spec.enc(wit), 'replay': rr})
    try:
        signal.setitimer(signal.ITIMER_REAL, 0)
    except (ValueError, AttributeError):
        pass
    if eng.truncated:
        res['undecided'].append({'why': 'case budget exhausted after %d paths' % eng.stats['paths']})
    res['paths'] = eng.stats['paths']
    res['solver_calls'] = eng.stats['solver_calls']
    res['solver_time'] = round(eng.stats['solver_time'], 3)
    res['nonlinear'] = eng.stats['nonlinear']
    res['wall'] = round(time.time() - t0, 2)
    res['unmodelled_calls'] = dict(models.UNMODELLED_LOG)
    return res


def _witness_of_path(h, env, eng, r, params):
    """Re-run the decision prefix of an undecided path far enough to build the inputs and get a model."""
    box = {}

    def one(e):
        inp = h.build(e, params)
        box['inp'] = inp
        try:
            h.run(env, inp, params)
        except BaseException:
            pass
        return None
    e2 = E.Engine(max_decisions=len(r.decisions) + 1, max_ticks=eng.max_ticks, solver_timeout_ms=20000, max_paths=1)
    E.CURRENT = None
    # replay exactly this path
    e2.reset_path(r.decisions)
    e2.solver.set('timeout', 20000)
    E.CURRENT = e2
    try:
        try:
            one(e2)
        except BaseException:
            pass
        if 'inp' not in box:
            return None
        try:
            if not e2.check():          # with the solver portfolio as fallback
                return None
            return spec.concretize(box['inp'], e2.get_model())
        except (Exception, Unmodelled):
            return None
    finally:
        E.CURRENT = None


# ------------------------------------------------------------------------------------------------
def translator_validation(scratch):
    """The repository's own test suite, executed through the instrumenting loader, must pass as the baseline does."""
    code = r'''
import sys
sys.path.insert(0, %r)
from vf import loader
loader.install(%r, with_ply=%s)
import pytest
sys.exit(pytest.main(['-q', '-p', 'no:cacheprovider', '-x', '--no-header', '-o', 'addopts=', %r]))
'''
    out = {}
    for with_ply in (False, True):
        p = subprocess.run([sys.executable, '-c', code % (VERIF, scratch, with_ply, os.path.join(scratch, 'tests'))],
                           capture_output=True, text=True, cwd=scratch)
        tail = (p.stdout.strip().splitlines() or [''])[-1]
        out['with_ply' if with_ply else 'hotxlfp_only'] = {'exit': p.returncode, 'summary': tail}
    return out


def run_property(pid, tier='quick', seed=0, jobs=None, only=None, verbose=False):
    t0 = time.time()
    load_harnesses()
    hs = for_property(pid)
    if only:
        hs = [h for h in hs if h.name in only]
    if not hs:
        print('no harness for', pid)
        return 2
    scratch = loader.make_scratch()
    digest = loader.source_digest(scratch)
    kfs = [k for k in load_known_findings() if k.get('property') == pid]
    tv = translator_validation(scratch)
    tv_ok = all(v['exit'] == 0 for v in tv.values())
    loader.install(scratch, with_ply=False)      # harnesses may read the live registry to build their cases
    jobs_list = []
    for h in hs:
        for p in h.cases(tier):
            jobs_list.append((h.name, p, tier, kfs, seed))
    import random
    random.Random(seed).shuffle(jobs_list)
    groups = {False: [j for j in jobs_list if not REGISTRY[j[0]].needs_ply],
              True: [j for j in jobs_list if REGISTRY[j[0]].needs_ply]}
    results = []
    nproc = jobs or min(16, os.cpu_count() or 4)
    ctx = multiprocessing.get_context('fork')
    for with_ply, js in groups.items():
        if not js:
            continue
        for k in [k for k in sys.modules if k.split('.')[0] in ('hotxlfp', 'ply')]:
            del sys.modules[k]
        loader.install(scratch, with_ply=with_ply)
        with ctx.Pool(min(nproc, len(js)), initializer=_worker_init, initargs=(scratch, with_ply)) as pool:
            for r in pool.imap_unordered(run_case, js, chunksize=1):
                results.append(r)
                if verbose:
                    print('  case %s %s paths=%d %s viol=%d known=%d und=%d %.1fs' % (
                        r['harness'], json.dumps(r['params'])[:80], r['paths'], r['status'], len(r['violations']),
                        len(r['known']), len(r['undecided']), r['wall']), flush=True)
    return finish(pid, tier, seed, hs, results, kfs, tv, tv_ok, digest, t0)


def finish(pid, tier, seed, hs, results, kfs, tv, tv_ok, digest, t0):
    os.makedirs(os.path.join(VERIF, 'evidence'), exist_ok=True)
    rdir = os.path.join(VERIF, 'replays', pid)
    os.makedirs(rdir, exist_ok=True)
    for f in os.listdir(rdir):
        os.unlink(os.path.join(rdir, f))
    viol_lines = []
    known_seen = {}
    harness_errors = []
    nviol = 0
    for r in results:
        if r.get('harness_error'):
            harness_errors.append((r['harness'], r['params'], r['harness_error']))
        for v in r['violations']:
            nviol += 1
            if nviol <= 25:
                path = os.path.join(rdir, 'v%03d_%s.json' % (nviol, r['harness'].replace('.', '_')))
                json.dump({'property': pid, 'harness': r['harness'], 'params': r['params'], 'inputs': v['inputs'],
                           'observed': v['replay'], 'bug_hunting_only': v.get('bug_hunting_only', False)},
                          open(path, 'w'), indent=1)
                viol_lines.append('VIOLATION property=%s replay=%s' % (pid, path))
                print('  harness=%s params=%s inputs=%s observed=%s' % (
                    r['harness'], json.dumps(r['params'])[:120], json.dumps(v['inputs'])[:300], json.dumps(v['replay'])[:300]))
        for k in r['known']:
            known_seen.setdefault(k['finding'], k)
    for kid, k in known_seen.items():
        ent = [x for x in kfs if x['id'] == kid][0]
        print('KNOWN-FINDING: property=%s %s [%s] witness=%s' % (pid, ent['what'], kid, json.dumps(k['inputs'])[:200]))
    for l in viol_lines:
        print(l)
    tot = lambda key: sum(r.get(key, 0) for r in results)
    status = {}
    for r in results:
        for k, v in r['status'].items():
            status[k] = status.get(k, 0) + v
    undecided = [dict(u, harness=r['harness'], params=r['params']) for r in results for u in r['undecided']]
    vacuous = [(r['harness'], r['params']) for r in results if r['reach'] == 0 and not r['undecided'] and not r.get('harness_error')]
    samples = []
    for r in results:
        samples.extend(r['samples'][:1])
    samples = samples[:12]
    unm = {}
    for r in results:
        for k, v in r.get('unmodelled_calls', {}).items():
            unm[k] = unm.get(k, 0) + v
    per_h = {}
    for r in results:
        d = per_h.setdefault(r['harness'], dict(cases=0, paths=0, queries=0, solver_s=0.0, replays=0, undecided=0, wall=0.0))
        d['cases'] += 1
        d['paths'] += r['paths']
        d['queries'] += r.get('solver_calls', 0)
        d['solver_s'] = round(d['solver_s'] + r.get('solver_time', 0), 2)
        d['replays'] += r['replays']
        d['undecided'] += len(r['undecided'])
        d['wall'] = round(d['wall'] + r.get('wall', 0), 1)
    exhaustive = not undecided and not harness_errors and not vacuous
    ev = {
        'property_id': pid, 'tier': tier, 'seed': seed, 'level': 'model_checking',
        'coverage': {
            'states': max(1, tot('paths')), 'transitions': max(1, tot('solver_calls')),
            'traces_validated_against_impl': tot('replays'),
            'samples': samples or [{'note': 'no path reached an assertion'}],
            'exhaustive': exhaustive,
            'explanation': 'states = symbolic path classes of the real code explored (each decided by z3 over all '
                           'inputs of the class); transitions = solver queries discharged; traces validated = solver '
                           'witnesses replayed on the un-instrumented code',
            'path_status': status,
            'harnesses': {h.name: {'doc': h.doc, 'functions_encoded': list(h.functions), 'bounds': h.bounds,
                                   'outside_claim': list(h.outside), 'stubs': list(h.stubs),
                                   'stats': per_h.get(h.name, {})} for h in hs},
            'undecided': undecided[:50], 'undecided_count': len(undecided),
            'vacuous_cases': vacuous[:20],
            'unmodelled_calls': unm,
            'spurious_witnesses_blocked': tot('spurious'),
            'nonlinear_terms': tot('nonlinear'),
            'solver_time_s': round(sum(r.get('solver_time', 0) for r in results), 2),
            'known_findings_reproduced': sorted(known_seen),
            'translator_validation': tv,
            'source_digest': digest,
            'engine_versions': {'z3': z3.get_version_string(), 'python': sys.version.split()[0]},
        },
        'assumptions': sorted({s for h in hs for s in h.stubs} | {
            'CPython, z3, the rewriting pass and the proxy models (validated by translator validation and replay)',
            'symbolic floats are finite and in the normal range; rounding modelled as relative error 2^-53'}),
        'wall_s': round(time.time() - t0, 2),
        'violations': nviol,
    }
    json.dump(ev, open(os.path.join(VERIF, 'evidence', pid + '.json'), 'w'), indent=1, default=str)
    print('%s tier=%s: %d harnesses, %d cases, %d path classes, %d solver queries (%.1fs), %d replays, %d undecided, '
          '%d violations, %d known findings, %.1fs wall' % (pid, tier, len(hs), len(results), tot('paths'), tot('solver_calls'),
                                                           ev['coverage']['solver_time_s'], tot('replays'), len(undecided),
                                                           nviol, len(known_seen), ev['wall_s']))
    if undecided:
        kinds = {}
        for u in undecided:
            kinds[u['why'][:90]] = kinds.get(u['why'][:90], 0) + 1
        for k, v in sorted(kinds.items(), key=lambda kv: -kv[1])[:8]:
            print('  UNDECIDED x%d: %s' % (v, k))
    if nviol:
        return 1
    if harness_errors:
        for hn, p, tb_ in harness_errors[:3]:
            print('HARNESS-ERROR %s %s\n%s' % (hn, p, tb_))
        return 2
    if not tv_ok:
        print('TRANSLATOR-VALIDATION FAILED', tv)
        return 2
    if vacuous:
        print('VACUOUS cases (no path reached the assertion):', vacuous[:5])
        return 2
    return 0
