"""Models of builtins / library calls for symbolic arguments, reached through the rewriting pass.

sym_call(f, *args) dispatches on the *real callee object*: with only concrete arguments it calls f
unchanged; with a symbolic argument it uses the model registered for f (or raises Unmodelled for a
C-level callee with no model -- never a silent wrong answer).
"""
import builtins
import datetime as _dt
import fnmatch as _fnmatch
import math as _math
import operator as _operator
import random as _random
import re as _re
import statistics as _statistics
import types
import z3
from . import engine as E
from .engine import Unmodelled
from .values import (SymInt, SymBool, SymFloat, SymStr, is_sym, mkint, mkbool, mkstr, zint, zbool, cps_of,
                     concretize_int, resolve_slice_bound, fdiv, zabs, is_numlike, is_intlike, is_floatlike,
                     float_binop, in_ranges, zcp, _tname, case_affected)

SYMTYPES = (SymInt, SymBool, SymFloat, SymStr)
EXTRA_SYM = []   # other proxy classes (dates, complex) register here


def symbolic(x):
    return isinstance(x, SYMTYPES) or getattr(x, '__is_sym__', False)


def any_symbolic(args, kw=None):
    for x in args:
        if symbolic(x):
            return True
    if kw:
        for x in kw.values():
            if symbolic(x):
                return True
    return False


def deep_symbolic(x, depth=3):
    if symbolic(x):
        return True
    if depth and isinstance(x, (list, tuple)):
        return any(deep_symbolic(y, depth - 1) for y in x)
    return False


def pytype(x):
    if isinstance(x, SymInt):
        return int
    if isinstance(x, SymBool):
        return bool
    if isinstance(x, SymFloat):
        return float
    if isinstance(x, SymStr):
        return str
    pt = getattr(x, '__pytype__', None)
    if pt is not None:
        return pt
    return type(x)


# ------------------------------------------------------------------------------------------------
# builtins
def m_isinstance(x, t):
    if symbolic(x):
        ts = t if isinstance(t, tuple) else (t,)
        pt = pytype(x)
        return any(issubclass(pt, c) for c in ts)
    return isinstance(x, t)


def m_type(x, *a):
    if a:
        return type(x, *a)
    return pytype(x)


_WS = None


def _small_base(base):
    """int(text, base) with a symbolic base: bases outside 2..36 (and 0) all raise the same ValueError, so only the
    valid ones are told apart"""
    z = zint(base)
    if SymBool(z3.Or(z < 2, z > 36)):
        if SymBool(z == 0):
            return 0
        return 99       # any invalid base
    return concretize_int(base, 2, 36, 'int() base')


def _int_of_symstr(s, base=10):
    """int(str) for a symbolic string: decimal ASCII digits with optional sign; characters outside
    every class int() could accept give ValueError; the remaining (rare) classes are unmodelled."""
    if isinstance(base, (SymInt, SymBool)):
        base = _small_base(base)
    if base != 10 and not (2 <= base <= 36):
        raise ValueError('int() base must be >= 2 and <= 36, or 0')
    cps = list(s.cps)
    cls = [classify_numchar(c, base) for c in cps]
    # strip whitespace
    while cls and cls[0][0] == 'ws':
        cls.pop(0); cps.pop(0)
    while cls and cls[-1][0] == 'ws':
        cls.pop(); cps.pop()
    neg = False
    if cls and cls[0][0] == 'sign':
        neg = cls[0][1]
        cls.pop(0); cps.pop(0)
    if not cls:
        raise ValueError('invalid literal for int()')
    val = z3.IntVal(0)
    prev_us = True   # underscore not allowed at start
    for k, (kind, v) in enumerate(cls):
        if kind == 'digit':
            val = val * base + v
            prev_us = False
        elif kind == 'us':
            if prev_us or k == len(cls) - 1:
                raise ValueError('invalid literal for int()')
            prev_us = True
        else:
            raise ValueError('invalid literal for int() with base %d' % base)
    res = z3.simplify(-val if neg else val)
    if base == 10 and not neg and all(k == 'digit' for k, _ in cls) and \
            all((48 <= c <= 57) if isinstance(c, int) else True for c in cps):
        # remember which digit string spelled this value: str() of the same value gives these digits back (if canonical)
        E.cur().uf_cache[('intstr', res.get_id())] = (res, tuple(cps))
    return mkint(res)


_NUMCLASS = {}


def _numclass_tables():
    """Code-point classes relevant to int()/float() parsing, computed from CPython itself."""
    if _NUMCLASS:
        return _NUMCLASS
    from .values import _ranges
    import unicodedata
    _NUMCLASS['ws'] = _ranges(lambda cp: chr(cp).isspace())
    # non-ASCII decimal digits accepted by int()
    _NUMCLASS['nd'] = _ranges(lambda cp: cp >= 128 and unicodedata.category(chr(cp)) == 'Nd')
    return _NUMCLASS


def classify_numchar(c, base=10):
    """Fork on the class of one character for int()/float() parsing."""
    t = _numclass_tables()
    if isinstance(c, int):
        ch = chr(c)
        if ch.isspace():
            return ('ws', None)
        if ch in '+-':
            return ('sign', ch == '-')
        if ch == '_':
            return ('us', None)
        if ch == '.':
            return ('dot', None)
        try:
            v = int(ch, 36)
            if c < 128:
                if v < base:
                    return ('digit', z3.IntVal(v))
                return ('letter', ch.lower()) if ch in 'eEiInNfFaAtTyY' else ('other', None)
            return ('digit', z3.IntVal(int(ch)))   # unicode decimal digit
        except ValueError:
            return ('other', None)
    if base > 10:
        isdig = z3.Or(z3.And(c >= 48, c <= 57), z3.And(c >= 97, c < 97 + base - 10), z3.And(c >= 65, c < 65 + base - 10))
        e = E.cur()
        if e.must(isdig):
            # provably a digit of this base: value as a term, no fork on its spelling
            return ('digit', z3.If(c <= 57, c - 48, z3.If(c <= 90, c - 55, c - 87)))
    if SymBool(z3.And(c >= 48, c <= 57)):
        if base >= 10:
            return ('digit', c - 48)
        if SymBool(c - 48 < base):
            return ('digit', c - 48)
        return ('other', None)
    if base > 10:
        if SymBool(z3.And(c >= 97, c < 97 + base - 10)):
            return ('digit', c - 87)
        if SymBool(z3.And(c >= 65, c < 65 + base - 10)):
            return ('digit', c - 55)
    if SymBool(z3.Or(c == 43, c == 45)):
        return ('sign', bool(SymBool(c == 45)))
    if SymBool(c == 46):
        return ('dot', None)
    if SymBool(c == 95):
        return ('us', None)
    if SymBool(in_ranges(c, t['ws'])):
        return ('ws', None)
    if SymBool(in_ranges(c, t['nd'])):
        raise Unmodelled('non-ASCII decimal digit in numeric text')
    # letters that matter to float(): e (exponent), i n f a t y (inf, nan, infinity)
    rel = [ord(ch) for ch in 'eEiInNfFaAtTyY']
    if SymBool(z3.Or(*[c == k for k in rel])):
        v = concretize_int(SymInt(c), 65, 122, 'letter')
        return ('letter', chr(v).lower())
    return ('other', None)


def _float_of_symstr(s):
    """float(str) for symbolic text: [ws] [sign] digits [. digits] | . digits  [ws]; exponent / inf / nan
    forms are recognised and evaluated concretely when every character is then fixed, else unmodelled."""
    cps = list(s.cps)
    cls = [classify_numchar(c, 10) for c in cps]
    if any(k == 'other' for k, _ in cls):
        raise ValueError('could not convert string to float')
    if any(k == 'letter' for k, _ in cls):
        # letters present: each letter was concretised; if all other chars are concrete too evaluate natively
        vals = []
        for c, (k, v) in zip(cps, cls):
            if k == 'letter':
                vals.append(v)
            elif isinstance(c, int):
                vals.append(chr(c))
            else:
                # digits etc. remain symbolic: only 'e' exponent forms could be numbers -> unmodelled
                letters = ''.join(v for kk, v in cls if kk == 'letter')
                if set(letters) <= set('e') and len(letters) == 1:
                    return _float_of_exponent_form(cls)
                # any other letter combination with symbolic non-letters: could only be inf/nan/infinity with sign/ws
                if all(kk in ('letter', 'sign', 'ws') for kk, _ in cls):
                    raise Unmodelled('float() of inf/nan-like text with symbolic sign/space')
                raise ValueError('could not convert string to float')
        return float(''.join(vals))
    while cls and cls[0][0] == 'ws':
        cls.pop(0)
    while cls and cls[-1][0] == 'ws':
        cls.pop()
    neg = False
    if cls and cls[0][0] == 'sign':
        neg = cls[0][1]
        cls.pop(0)
    if not cls:
        raise ValueError('could not convert string to float')
    num = z3.IntVal(0)
    scale = 0
    seen_dot = False
    ndig = 0
    prev = None
    for k, (kind, v) in enumerate(cls):
        if kind == 'digit':
            num = num * 10 + v
            ndig += 1
            if seen_dot:
                scale += 1
        elif kind == 'dot':
            if seen_dot or prev == 'us':
                raise ValueError('could not convert string to float')
            seen_dot = True
        elif kind == 'us':
            if prev != 'digit' or k == len(cls) - 1 or cls[k + 1][0] != 'digit':
                raise ValueError('could not convert string to float')
        else:
            raise ValueError('could not convert string to float')
        prev = kind
    if ndig == 0:
        raise ValueError('could not convert string to float')
    if neg:
        num = -num
    num = z3.simplify(num)
    if scale == 0:
        return float_binop('+', SymInt(num) if not z3.is_int_value(num) else num.as_long(), 0.0) if False else _int_to_float(num)
    # correctly rounded decimal -> double: fl(num / 10^scale); python int/int true division rounds the same way
    return float_binop('/', mkint(num), 10 ** scale)


def _decimal_digits(cls):
    """[sign] digits [. digits] | . digits  (a list of classified characters) -> (signed integer term, scale, ndigits)"""
    cls = list(cls)
    neg = False
    if cls and cls[0][0] == 'sign':
        neg = cls[0][1]
        cls.pop(0)
    num = z3.IntVal(0)
    scale = 0
    seen_dot = False
    ndig = 0
    for kind, v in cls:
        if kind == 'digit':
            num = num * 10 + v
            ndig += 1
            if seen_dot:
                scale += 1
        elif kind == 'dot':
            if seen_dot:
                raise ValueError('could not convert string to float')
            seen_dot = True
        else:
            raise ValueError('could not convert string to float')
    if ndig == 0:
        raise ValueError('could not convert string to float')
    return (z3.simplify(-num) if neg else z3.simplify(num)), scale, ndig


def _float_of_exponent_form(cls):
    """[ws] mantissa (e|E) [sign] digits [ws] with symbolic digits: the exponent is concretised (one path per value), the
    value is the correctly rounded quotient / product of integers (what the C conversion gives for these short forms)"""
    from .values import concretize_int
    cls = list(cls)
    while cls and cls[0][0] == 'ws':
        cls.pop(0)
    while cls and cls[-1][0] == 'ws':
        cls.pop()
    k = [i for i, (kind, v) in enumerate(cls) if kind == 'letter'][0]
    mant, exp = cls[:k], cls[k + 1:]
    if any(kind == 'us' for kind, v in cls):
        raise Unmodelled('float() of exponent form with underscores')
    num, scale, ndig = _decimal_digits(mant)
    if any(kind == 'dot' for kind, v in exp):
        raise ValueError('could not convert string to float')
    xnum, _, xdig = _decimal_digits(exp)
    if ndig > 12 or xdig > 2:
        raise Unmodelled('float() of a long exponent form')
    x = concretize_int(mkint(xnum), -99, 99, 'exponent of numeric text')
    shift = x - scale
    if shift >= 0:
        if ndig + shift > 15:
            raise Unmodelled('float() of an exponent form beyond 10^15')
        return _int_to_float(z3.simplify(num * (10 ** shift)))
    if -shift > 22:
        raise Unmodelled('float() of an exponent form below 10^-22')
    return float_binop('/', mkint(num), 10 ** (-shift))


def _int_to_float(zi):
    from .values import _mkfloat_exact_int
    if z3.is_int_value(zi):
        return float(zi.as_long())
    return _mkfloat_exact_int(zi)


def m_int(*a, **kw):
    if not a:
        return int(**kw)
    x = a[0]
    if isinstance(x, SymInt):
        if len(a) > 1:
            raise TypeError("int() can't convert non-string with explicit base")
        return x
    if isinstance(x, SymBool):
        return mkint(zint(x))
    if isinstance(x, SymFloat):
        return x.__trunc__()
    if isinstance(x, SymStr):
        return _int_of_symstr(x, *(a[1:] or (kw.get('base', 10),)))
    if isinstance(x, str) and len(a) > 1:
        b = a[1]
        if isinstance(b, SymFloat):
            raise TypeError("'float' object cannot be interpreted as an integer")
        b = _small_base(b)
        return int(x, b)
    if symbolic(x):
        f = getattr(x, '__sym_int__', None)
        if f:
            return f()
        raise TypeError("int() argument must be a string, a bytes-like object or a real number, not '%s'" % _tname(x))
    return int(*a, **kw)


def m_float(*a):
    if not a:
        return 0.0
    x = a[0]
    if isinstance(x, SymFloat):
        return x
    if isinstance(x, (SymInt, SymBool)):
        return _int_to_float(zint(x))
    if isinstance(x, SymStr):
        return _float_of_symstr(x)
    if symbolic(x):
        raise TypeError("float() argument must be a string or a real number, not '%s'" % _tname(x))
    return float(x)


def digits_of(z, e=None):
    """str(n) for a non-negative symbolic int: fork on the number of digits (bounded), digits by arithmetic."""
    e = E.cur()
    zs = z3.simplify(z)
    hit = e.uf_cache.get(('intstr', zs.get_id()))
    if hit is not None and hit[0].eq(zs):
        cps = hit[1]
        if len(cps) == 1 or e.must(zcp(cps[0]) != 48):
            return [zcp(c) if not isinstance(c, int) else c for c in cps]      # the canonical spelling it was read from
    maxd = 20
    nd = None
    p = 10
    for k in range(1, maxd + 1):
        if SymBool(z < p):
            nd = k
            break
        p *= 10
    if nd is None:
        raise Unmodelled('str(int) with more than %d digits' % maxd)
    # digits as fresh bounded integers tied to z by one linear equation (unique decomposition); one set per term and path
    key = ('digits', z.get_id(), nd)
    hit = e.uf_cache.get(key)
    if hit is not None and hit[0].eq(z):
        return list(hit[1])
    ds = []
    total = z3.IntVal(0)
    for i in range(nd):
        d = z3.Int('dig%d_%d' % (e.nfresh, i))
        e.bounded(d, 1 if (i == 0 and nd > 1) else 0, 9)
        ds.append(d)
        total = total * 10 + d
    e.nfresh += 1
    e.add(total == z)
    out = [d + 48 for d in ds]
    e.uf_cache[key] = (z, out)
    return list(out)


def str_of_int(x):
    z = zint(x)
    if SymBool(z < 0):
        return mkstr([45] + digits_of(-z))
    return mkstr(digits_of(z))


def m_str(*a, **kw):
    if not a:
        return str(**kw)
    x = a[0]
    if isinstance(x, SymStr):
        return x
    if isinstance(x, SymBool):
        return 'True' if x else 'False'
    if isinstance(x, SymInt):
        return str_of_int(x)
    if isinstance(x, SymFloat):
        if x.iz is not None:
            if SymBool(zabs(x.iz) < 10 ** 16):
                s = str_of_int(SymInt(x.iz))
                return s + '.0'
            raise Unmodelled('str(float) in exponent notation')
        raise Unmodelled('str(float): shortest-repr algorithm not modelled')
    if symbolic(x):
        f = getattr(x, '__sym_str__', None)
        if f:
            return f()
        raise Unmodelled('str(%s)' % _tname(x))
    if len(a) == 1 and not kw and isinstance(x, (list, tuple, dict)) and deep_symbolic(x):
        raise Unmodelled('str(container holding symbolic values)')
    return str(*a, **kw)


def m_repr(x):
    if symbolic(x) or deep_symbolic(x):
        raise Unmodelled('repr of symbolic value')
    return repr(x)


def m_bool(*a):
    if not a:
        return False
    x = a[0]
    if isinstance(x, SymBool):
        return x
    if isinstance(x, SymInt):
        return mkbool(x.z != 0)
    if isinstance(x, SymFloat):
        return mkbool(x.real() != 0)
    return bool(x)


def m_len(x):
    return len(x)


def m_chr(x):
    if isinstance(x, SymFloat):
        raise TypeError("'float' object cannot be interpreted as an integer")
    if isinstance(x, SymStr):
        raise TypeError("'str' object cannot be interpreted as an integer")
    if isinstance(x, (SymInt, SymBool)):
        z = zint(x)
        if SymBool(z3.Or(z < 0, z > 0x10FFFF)):
            raise ValueError('chr() arg not in range(0x110000)')
        return mkstr((z,))
    return chr(x)


def m_ord(x):
    if isinstance(x, SymStr):
        if len(x) != 1:
            raise TypeError('ord() expected a character, but string of length %d found' % len(x))
        c = x.cps[0]
        return c if isinstance(c, int) else mkint(c)
    if symbolic(x):
        raise TypeError('ord() expected string of length 1, but %s found' % _tname(x))
    return ord(x)


def m_hex(x):
    if isinstance(x, SymFloat):
        raise TypeError("'float' object cannot be interpreted as an integer")
    if isinstance(x, SymStr):
        raise TypeError("'str' object cannot be interpreted as an integer")
    if isinstance(x, (SymInt, SymBool)):
        z = zint(x)
        neg = bool(SymBool(z < 0))
        if neg:
            z = -z
        nd = None
        p = 16
        for k in range(1, 17):
            if SymBool(z < p):
                nd = k
                break
            p *= 16
        if nd is None:
            raise Unmodelled('hex() with more than 16 digits')
        e = E.cur()
        out = []
        total = z3.IntVal(0)
        for i in range(nd):
            d = z3.Int('hexd%d_%d' % (e.nfresh, i))
            e.bounded(d, 1 if (i == 0 and nd > 1) else 0, 15)
            total = total * 16 + d
            out.append(z3.If(d < 10, d + 48, d + 87))
        e.nfresh += 1
        e.add(total == z)
        pre = [45] if neg else []
        return mkstr(pre + [48, 120] + out)
    return hex(x)


def m_abs(x):
    return abs(x)


def m_round(x, nd=None):
    if symbolic(x) or symbolic(nd):
        if isinstance(x, SymStr) or isinstance(x, str):
            raise TypeError("type str doesn't define __round__ method")
        if isinstance(nd, (SymFloat, float)):
            raise TypeError("'float' object cannot be interpreted as an integer")
        if isinstance(nd, (SymStr, str)):
            raise TypeError("'str' object cannot be interpreted as an integer")
        if isinstance(x, (int, float)) and not symbolic(x):
            k = concretize_int(nd, -40, 40, 'round digits')
            return round(x, k)
        return x.__round__(nd) if nd is not None else x.__round__()
    return round(x, nd) if nd is not None else round(x)


def m_complex(*a):
    from .symcomplex import SymComplex
    if len(a) == 2 and all(is_numlike(v) for v in a):
        return SymComplex(a[0], a[1])
    if len(a) == 1 and isinstance(a[0], SymStr):
        cls = [classify_numchar(c, 10) for c in a[0].cps]
        if any(k == 'other' for k, _ in cls) or not any(k == 'digit' for k, _ in cls):
            raise ValueError('complex() arg is a malformed string')
        if all(k in ('digit', 'dot', 'sign') for k, _ in cls):
            try:
                return SymComplex(_float_of_symstr(a[0]), 0.0)
            except ValueError:
                raise ValueError('complex() arg is a malformed string')
        raise Unmodelled('complex(symbolic str)')
    if any(isinstance(v, (SymStr, str)) for v in a):
        if len(a) == 2:
            raise TypeError("complex() can't take second arg if first is a string")
    raise Unmodelled('complex(%s)' % ', '.join(_tname(v) for v in a))


def m_hash(x):
    if symbolic(x):
        raise Unmodelled('hash of symbolic value')
    return hash(x)


def m_range(*a):
    if any_symbolic(a):
        vals = [concretize_int(v, -100000, 100000, 'range bound') if symbolic(v) else v for v in a]
        return range(*vals)
    return range(*a)


def m_divmod(a, b):
    return (a // b, a % b)


def m_pow(a, b, *m):
    if m:
        raise Unmodelled('3-arg pow')
    return a ** b


def m_format(x, spec=''):
    if symbolic(x):
        raise Unmodelled('format() of symbolic value')
    return format(x, spec)


def m_list(*a):
    return list(*a)


# ------------------------------------------------------------------------------------------------
# math
_UF = {}


def uf_real(name, *args):
    """Uninterpreted real function application (value of a transcendental library call)."""
    key = (name, len(args))
    f = _UF.get(key)
    if f is None:
        f = z3.Function('uf_' + name, *([z3.RealSort()] * (len(args) + 1)))
        _UF[key] = f
    return f(*args)


def _realarg(x, fname):
    if isinstance(x, SymFloat):
        return x.real()
    if isinstance(x, (SymInt, SymBool)):
        return z3.ToReal(zint(x))
    if isinstance(x, bool):
        return z3.RealVal(int(x))
    if isinstance(x, int):
        return z3.RealVal(x)
    if isinstance(x, float):
        from .values import to_fractionlike
        return to_fractionlike(x)
    raise TypeError('must be real number, not %s' % _tname(x))


def _log_math_call(name, rs):
    e = E.cur()
    if not hasattr(e, 'math_calls'):
        e.math_calls = []
    e.math_calls.append((name, rs))



def _math_stub(name, domain=None, err='ValueError', facts=None):
    """A libm call: uninterpreted value + the documented domain contract (exception outside it) and, where given,
    elementary sign facts of the result that hold for every double (e.g. sqrt(x) >= 0, sin(x) = 0 only at x = 0)."""
    def model(*a):
        rs = [_realarg(v, name) for v in a]
        if domain is not None:
            ok = domain(*rs)
            if not SymBool(z3.simplify(ok)):
                if err == 'ZeroDivisionError':
                    raise ZeroDivisionError('float division by zero')
                raise ValueError('math domain error')
        e = E.cur()
        if not hasattr(e, 'math_calls'):
            e.math_calls = []
        e.math_calls.append((name, rs))
        v = uf_real(name, *rs)
        if facts is not None:
            e.add(facts(v, *rs))
        return SymFloat(r=v)
    model.__name__ = 'm_math_' + name
    return model


def m_isnan(x):
    _realarg(x, 'isnan')
    return False   # symbolic floats are finite by construction (stated assumption)


def m_isinf(x):
    _realarg(x, 'isinf')
    return False


def m_ceil(x):
    if isinstance(x, (SymStr, str)):
        raise TypeError('must be real number, not str')
    return x.__ceil__()


def m_floor(x):
    if isinstance(x, (SymStr, str)):
        raise TypeError('must be real number, not str')
    return x.__floor__()


def m_trunc(x):
    if isinstance(x, (SymStr, str)):
        raise TypeError("type str doesn't define __trunc__ method")
    return x.__trunc__()


def m_factorial(x):
    if isinstance(x, (SymFloat, float)):
        raise TypeError("'float' object cannot be interpreted as an integer")
    z = zint(x)
    if z is None:
        raise TypeError("'%s' object cannot be interpreted as an integer" % _tname(x))
    if SymBool(z < 0):
        raise ValueError('factorial() not defined for negative values')
    if SymBool(z <= 20):
        k = concretize_int(x, 0, 20, 'factorial arg')
        return _math.factorial(k)
    f = _UF.get('fact')
    if f is None:
        f = z3.Function('uf_fact', z3.IntSort(), z3.IntSort())
        _UF['fact'] = f
    return SymInt(f(z))


def m_mathpow(x, y):
    """math.pow: a double.  Integer base and small integer exponent: the correctly rounded value of the exact power (exact
    below 2^53, otherwise fl); anything else is an uninterpreted value with pow's domain contract."""
    zx, zy = zint(x), zint(y)
    if zx is not None and zy is not None and not isinstance(x, (SymFloat, float)) and not isinstance(y, (SymFloat, float)):
        k = concretize_int(y, -8, 64, 'math.pow exponent') if symbolic(y) else int(y)
        if k >= 0:
            r = z3.IntVal(1)
            for _ in range(k):
                r = r * zx
            return _int_to_float(z3.simplify(r))
    rx, ry = _realarg(x, 'pow'), _realarg(y, 'pow')
    if SymBool(z3.And(rx == 0, ry < 0)):
        raise ValueError('math domain error')
    if SymBool(z3.And(rx < 0, z3.Not(z3.IsInt(ry)))):
        raise ValueError('math domain error')
    _log_math_call('pow', [rx, ry])
    return SymFloat(r=uf_real('pow', rx, ry))


def m_log(x, base=None):
    rx = _realarg(x, 'log')
    if not SymBool(rx > 0):
        raise ValueError('math domain error')
    e = E.cur()
    if not hasattr(e, 'math_calls'):
        e.math_calls = []
    if base is None:
        e.math_calls.append(('log', [rx]))
        return SymFloat(r=uf_real('log', rx))
    rb = _realarg(base, 'log')
    if not SymBool(rb > 0):
        raise ValueError('math domain error')
    if SymBool(rb == 1):
        raise ZeroDivisionError('float division by zero')
    e.math_calls.append(('log', [rx, rb]))
    return SymFloat(r=uf_real('log2', rx, rb))


# ------------------------------------------------------------------------------------------------
# containers with symbolic keys / indices
def _side(d, create=False):
    """entries stored under SYMBOLIC keys in a plain dict (kept per path on the engine; latest first on lookup)"""
    e = E.CURRENT
    if e is None:
        return None
    tab = getattr(e, 'symdict', None)
    if tab is None:
        if not create:
            return None
        tab = e.symdict = {}
    ent = tab.get(id(d))
    if ent is None:
        if not create:
            return None
        ent = tab[id(d)] = (d, [])
    return ent[1]


def sym_setitem(o, key, value):
    if isinstance(o, dict) and (symbolic(key) or _side(o) is not None):
        if symbolic(key):
            _side(o, True).append((key, value))
            return
        # concrete key stored into a dict that also has symbolic keys: entries with a symbolic key that may be equal
        # are shadowed by appending (lookups scan latest first)
        _side(o, True).append((key, value))
        o[key] = value
        return
    if symbolic(key) and isinstance(o, list):
        n = len(o)
        z = zint(key)
        if z is None or SymBool(z3.Or(z >= n, z < -n)):
            raise IndexError('list assignment index out of range')
        o[concretize_int(key, -n, n - 1, 'index')] = value
        return
    o[key] = value


_DELETED = object()


def dict_lookup(d, key, default, has_default):
    side = _side(d)
    if side:
        for k, v in reversed(side):
            r = (key == k)
            if r is NotImplemented:
                r = False
            if r is not False and r:
                if v is _DELETED:
                    if has_default:
                        return default
                    raise KeyError('deleted key')
                return v
    if not symbolic(key):
        try:
            return d[key]
        except KeyError:
            if has_default:
                return default
            raise
    for k in d:
        r = (key == k)
        if r is NotImplemented:
            r = False
        if r is not False and r:
            return d[k]
    if has_default:
        return default
    raise KeyError(key if not symbolic(key) else 'symbolic key')


def sym_getitem(o, i):
    if isinstance(o, dict) and E.CURRENT is not None and _side(o):
        return dict_lookup(o, i, None, False)
    if symbolic(i):
        if symbolic(o):
            return o[i]
        if isinstance(o, (list, tuple, str)):
            if isinstance(i, SymFloat):
                raise TypeError('%s indices must be integers or slices, not float' % type(o).__name__)
            if isinstance(i, SymStr):
                raise TypeError('%s indices must be integers or slices, not str' % type(o).__name__)
            z = zint(i)
            if z is None:
                raise TypeError('%s indices must be integers or slices, not %s' % (type(o).__name__, _tname(i)))
            n = len(o)
            if SymBool(z3.Or(z >= n, z < -n)):
                raise IndexError('%s index out of range' % type(o).__name__)
            if isinstance(o, str) and n > 4:
                if SymBool(z < 0):
                    z = z + n
                ch = z3.IntVal(ord(o[-1]))
                for k in range(n - 2, -1, -1):
                    ch = z3.If(z == k, ord(o[k]), ch)
                # contiguous runs (0-9, A-Z) collapse to linear pieces
                runs = []
                for k, c0 in enumerate(o):
                    if runs and runs[-1][1] + runs[-1][2] == ord(c0) and runs[-1][0] + runs[-1][2] == k:
                        runs[-1][2] += 1
                    else:
                        runs.append([k, ord(c0), 1])
                ch = z3.IntVal(runs[-1][1]) + (z - runs[-1][0])
                for k0, c0, ln in reversed(runs[:-1]):
                    ch = z3.If(z < k0 + ln, c0 + (z - k0), ch)
                return mkstr((z3.simplify(ch),))
            return o[concretize_int(i, -n, n - 1, 'index')]
        if isinstance(o, dict):
            return dict_lookup(o, i, None, False)
        if hasattr(type(o), '__getitem__') and not isinstance(o, (bytes, bytearray)):
            return o[i]   # user classes (Cell, ply production) handle the comparison themselves
        raise Unmodelled('getitem %s[%s]' % (type(o).__name__, _tname(i)))
    if isinstance(i, slice) and (symbolic(i.start) or symbolic(i.stop) or symbolic(i.step)):
        if symbolic(o):
            return o[i]
        if isinstance(o, (list, tuple, str)):
            if i.step not in (None, 1):
                raise Unmodelled('symbolic slice with step')
            for b in (i.start, i.stop):
                if isinstance(b, (SymFloat, SymStr)):
                    raise TypeError('slice indices must be integers or None or have an __index__ method')
            n = len(o)
            a = resolve_slice_bound(i.start, n, 0)
            b = resolve_slice_bound(i.stop, n, n)
            return o[a:b]
        raise Unmodelled('symbolic slice of %s' % type(o).__name__)
    return o[i]


def sym_in(a, b, negate):
    r = _sym_in(a, b)
    if negate:
        if isinstance(r, SymBool):
            return mkbool(z3.Not(r.z))
        return not r
    return r


_MISSING = object()


def _sym_in(a, b):
    if isinstance(b, dict) and E.CURRENT is not None and _side(b):
        return dict_lookup(b, a, _MISSING, True) is not _MISSING
    if isinstance(b, SymStr):
        if not isinstance(a, (str, SymStr)):
            raise TypeError("'in <string>' requires string as left operand, not %s" % _tname(a))
        return b.__contains__(a)
    if symbolic(a):
        if isinstance(b, str):
            if not isinstance(a, SymStr):
                raise TypeError("'in <string>' requires string as left operand, not %s" % _tname(a))
            if len(a) > len(b):
                return False
            return SymStr(cps_of(b)).__contains__(a)
        if isinstance(b, (list, tuple, set, frozenset, dict)) or isinstance(b, type({}.keys())):
            for k in b:
                r = (a == k)
                if r is NotImplemented:
                    continue
                if r is not False and r:
                    return True
            return False
        return a in b
    if isinstance(b, (list, tuple)) and deep_symbolic(b, 1):
        for k in b:
            if k is a:
                return True
            r = (a == k)
            if r is NotImplemented:
                continue
            if r is not False and r:
                return True
        return False
    return a in b


def sym_is(a, b, negate):
    r = None
    if isinstance(a, SymBool) and isinstance(b, bool):
        r = mkbool(a.z == z3.BoolVal(b))
    elif isinstance(b, SymBool) and isinstance(a, bool):
        r = mkbool(b.z == z3.BoolVal(a))
    if r is None:
        r = a is b
    if negate:
        return mkbool(z3.Not(r.z)) if isinstance(r, SymBool) else (not r)
    return r


def sym_tick():
    if E.CURRENT is not None:
        E.CURRENT.tick()


def sym_strmod(fmt, args):
    tup = args if isinstance(args, tuple) else (args,)
    if not any(symbolic(x) for x in tup):
        return fmt % args
    # modelled conversions: %s, %d / %i of integers, %.Ng of integers that print without an exponent; %% literal
    import re as _re
    if isinstance(fmt, SymStr):
        raise Unmodelled('%-format with a symbolic template')
    toks = _re.split(r'(%(?:%|s|d|i|\.[0-9]+g))', fmt)
    if '%' in ''.join(toks[0::2]):
        raise Unmodelled('%%-format %r with symbolic argument' % fmt)
    convs = [t for t in toks[1::2] if t != '%%']
    if len(convs) != len(tup):
        raise TypeError('not enough arguments for format string' if len(convs) > len(tup) else 'not all arguments converted during string formatting')
    out = ''
    k = 0
    for i, t in enumerate(toks):
        if i % 2 == 0:
            out = out + t
            continue
        if t == '%%':
            out = out + '%'
            continue
        x = tup[k]
        k += 1
        if t == '%s':
            out = out + m_str(x)
        elif t in ('%d', '%i'):
            if isinstance(x, SymStr):
                raise TypeError('%d format: a real number is required, not str')
            if isinstance(x, SymFloat):
                x = x.__trunc__()
            out = out + m_str(mkint(zint(x)) if isinstance(x, SymBool) else x)
        else:
            n = int(t[2:-1]) or 1
            if isinstance(x, (SymInt, SymBool)):
                z = zint(x)
                # %.Ng of an integer: its digits when it has at most N of them (and N <= 15: exact as a double)
                if n <= 15 and SymBool(z3.And(z < 10 ** n, z > -(10 ** n))):
                    out = out + m_str(mkint(z))
                    continue
                raise Unmodelled('%%-format %s of an integer with more than %d digits (exponent notation)' % (t, n))
            if isinstance(x, SymStr):
                raise TypeError('must be real number, not str')
            raise Unmodelled('%%-format %s of a symbolic float' % t)
    return out


# ------------------------------------------------------------------------------------------------
# str methods on a concrete receiver with a symbolic argument
def _str_method(f, a, kw):
    recv = f.__self__
    name = f.__name__
    if name == 'join':
        items = list(a[0])
        if any(isinstance(x, SymStr) for x in items):
            return SymStr(cps_of(recv)).join(items)
        for k, x in enumerate(items):
            if symbolic(x):
                raise TypeError('sequence item %d: expected str instance, %s found' % (k, _tname(x)))
        return recv.join(items)
    if not any_symbolic(a, kw):
        return f(*a, **kw)
    m = getattr(SymStr(cps_of(recv)), name, None)
    if m is None:
        raise Unmodelled('str.%s with symbolic argument' % name)
    return m(*a, **kw)


def _dict_method(f, a, kw):
    d = f.__self__
    name = f.__name__
    if _side(d):
        if name == 'get' and a:
            return dict_lookup(d, a[0], a[1] if len(a) > 1 else None, True)
        if name == '__getitem__':
            return dict_lookup(d, a[0], None, False)
        if name == 'pop':
            try:
                v = dict_lookup(d, a[0], None, False)
            except KeyError:
                if len(a) > 1:
                    return a[1]
                raise
            _side(d, True).append((a[0], _DELETED))
            if not symbolic(a[0]):
                d.pop(a[0], None)
            return v
        if name in ('keys', 'values', 'items', '__iter__', '__len__', 'setdefault', '__delitem__', 'update', 'copy'):
            raise Unmodelled('dict.%s on a dict holding symbolic keys' % name)
    if name == 'get' and a and symbolic(a[0]):
        return dict_lookup(d, a[0], a[1] if len(a) > 1 else None, True)
    if name in ('__getitem__',) and symbolic(a[0]):
        return dict_lookup(d, a[0], None, False)
    if name in ('__contains__',) and symbolic(a[0]):
        return _sym_in(a[0], d)
    if name == 'pop' and a and symbolic(a[0]):
        try:
            v = dict_lookup(d, a[0], None, False)
        except KeyError:
            if len(a) > 1:
                return a[1]
            raise
        _side(d, True).append((a[0], _DELETED))
        return v
    if name in ('setdefault', '__setitem__', '__delitem__') and a and symbolic(a[0]):
        raise Unmodelled('dict.%s with symbolic key' % name)
    return f(*a, **kw)


def _list_method(f, a, kw):
    name = f.__name__
    if name in ('index', 'count', 'remove', '__contains__') and a and (symbolic(a[0]) or deep_symbolic(f.__self__, 1)):
        lst = f.__self__
        if name == '__contains__':
            return _sym_in(a[0], lst)
        if name == 'index':
            for k, v in enumerate(lst):
                r = (v == a[0])
                if r is not NotImplemented and r is not False and r:
                    return k
            raise ValueError('x not in list')
        raise Unmodelled('list.%s with symbolic element' % name)
    if name in ('insert', 'pop', '__getitem__') and a and symbolic(a[0]):
        if name == '__getitem__':
            return sym_getitem(f.__self__, a[0])
        raise Unmodelled('list.%s with symbolic index' % name)
    return f(*a, **kw)


# ------------------------------------------------------------------------------------------------
# environment stubs
def m_random():
    e = E.cur()
    v = z3.Real('rand_%d' % e.nfresh)
    e.nfresh += 1
    e.add(v >= 0, v < 1)
    return SymFloat(r=v)


def m_randint(a, b):
    e = E.cur()
    for x in (a, b):
        if isinstance(x, (SymFloat, float)):
            raise Unmodelled('randint with float bound')
    za, zb = zint(a), zint(b)
    if za is None or zb is None:
        raise TypeError('randint bounds must be integers')
    if SymBool(za > zb):
        raise ValueError('empty range for randrange()')
    v = z3.Int('randint_%d' % e.nfresh)
    e.nfresh += 1
    e.add(v >= za, v <= zb)
    return SymInt(v)


STAT_LOG_ATTR = 'stat_calls'


def _stat_stub(name):
    def model(data, *rest):
        items = list(data)
        e = E.cur()
        if not hasattr(e, STAT_LOG_ATTR):
            setattr(e, STAT_LOG_ATTR, [])
        getattr(e, STAT_LOG_ATTR).append((name, items))
        for it in items:
            if isinstance(it, (SymStr, str)):
                raise TypeError("can't convert type 'str' to numerator/denominator")
        minlen = {'mean': 1, 'median': 1, 'mode': 1, 'variance': 2, 'stdev': 2, 'pvariance': 1, 'pstdev': 1,
                  'harmonic_mean': 1, 'geometric_mean': 1}[name]
        if len(items) < minlen:
            raise _statistics.StatisticsError('%s requires at least %d data point(s)' % (name, minlen))
        from .values import _floatval_nofork
        rs = [_floatval_nofork(it) for it in items]
        if name == 'harmonic_mean':
            for r in rs:
                if SymBool(r < 0):
                    raise _statistics.StatisticsError('harmonic mean does not support negative values')
        if name == 'geometric_mean':
            for r in rs:
                if SymBool(r <= 0):
                    raise _statistics.StatisticsError('geometric mean requires a non-empty dataset containing positive numbers')
        # value: uninterpreted function of the item sequence (congruence makes equal sequences equal)
        return SymFloat(r=uf_real('%s_%d' % (name, len(rs)), *rs))
    model.__name__ = 'm_stat_' + name
    return model


def m_print_exc(*a, **k):
    return None


# ------------------------------------------------------------------------------------------------
MODELS = {
    isinstance: m_isinstance, type: m_type, int: m_int, float: m_float, str: m_str, bool: m_bool, repr: m_repr,
    chr: m_chr, ord: m_ord, hex: m_hex, round: m_round, complex: m_complex, hash: m_hash, range: m_range,
    divmod: m_divmod, pow: m_pow, format: m_format,
    _math.ceil: m_ceil, _math.floor: m_floor, _math.trunc: m_trunc, _math.isnan: m_isnan, _math.isinf: m_isinf,
    _math.factorial: m_factorial, _math.log: m_log, _math.pow: m_mathpow,
    _math.sqrt: _math_stub('sqrt', lambda x: x >= 0, facts=lambda v, x: z3.And(v >= 0, (v == 0) == (x == 0), z3.Implies(x >= 1, v >= 1), z3.Implies(x >= 1, v <= x),
                                              v * v <= x * (1 + z3.RealVal(1) / 2 ** 50), v * v >= x * (1 - z3.RealVal(1) / 2 ** 50))),
    _math.sin: _math_stub('sin', facts=lambda v, x: z3.And(v >= -1, v <= 1, (v == 0) == (x == 0))),
    _math.cos: _math_stub('cos', facts=lambda v, x: z3.And(v >= -1, v <= 1)), _math.tan: _math_stub('tan'),
    _math.asin: _math_stub('asin', lambda x: z3.And(x >= -1, x <= 1)),
    _math.acos: _math_stub('acos', lambda x: z3.And(x >= -1, x <= 1)),
    _math.atan: _math_stub('atan'), _math.atan2: _math_stub('atan2'),
    _math.sinh: _math_stub('sinh'), _math.cosh: _math_stub('cosh', facts=lambda v, x: v >= 1), _math.tanh: _math_stub('tanh'),
    _math.asinh: _math_stub('asinh'), _math.acosh: _math_stub('acosh', lambda x: x >= 1),
    _math.atanh: _math_stub('atanh', lambda x: z3.And(x > -1, x < 1)),
    _math.exp: _math_stub('exp'), _math.log10: _math_stub('log10', lambda x: x > 0),
    _math.radians: _math_stub('radians'), _math.degrees: _math_stub('degrees'),
    _random.random: m_random, _random.randint: m_randint,
}
for _n in ('mean', 'median', 'mode', 'variance', 'stdev', 'pvariance', 'pstdev', 'harmonic_mean', 'geometric_mean'):
    MODELS[getattr(_statistics, _n)] = _stat_stub(_n)

import traceback as _traceback
import functools as _functools

NATIVE_TOPS = {'hotxlfp', 'ply', 'vf', '__main__', 'calendar', 'tests', 'operator'}
# python-level library functions: model(*args) is used whenever the engine is active (their arguments may be
# generators over symbolic items, which a shallow check cannot see); models fall back to the real function
PY_MODELS = {_traceback.print_exc: m_print_exc}
ALWAYS = {}

_BUILTIN_METHOD = type(''.join)
_CMETHOD = type(_re.compile('').match)   # PyCMethod objects have their own type ('builtin_method')
_PASS_NATIVE = {list, tuple, sorted, sum, min, max, all, any, len, abs, iter, next, enumerate, zip, reversed,
                map, filter, getattr, hasattr, setattr, callable, id, print, dict, set, frozenset, slice,
                _operator.add, _operator.sub, _operator.mul, _operator.truediv, _operator.gt, _operator.lt,
                _operator.ne, _operator.eq, _operator.ge, _operator.le, _operator.floordiv, _operator.mod,
                _operator.neg, _operator.pos, _operator.not_, _operator.truth, _functools.reduce}
UNMODELLED_LOG = {}
CALL_HOOKS = []       # hook(f, receiver, args, kw) -> result | NotImplemented   (C-level callee, symbolic argument)
CONCRETE_HOOKS = []   # hook(f, args, kw) -> result | NotImplemented              (C-level callee, concrete arguments)


def _stat_wrap(name, real):
    stub = _stat_stub(name)

    def model(data, *rest):
        items = list(data)
        if not any_symbolic(items):
            return real(items, *rest)
        return stub(items, *rest)
    return model


for _n in ('mean', 'median', 'mode', 'variance', 'stdev', 'pvariance', 'pstdev', 'harmonic_mean', 'geometric_mean'):
    PY_MODELS[getattr(_statistics, _n)] = _stat_wrap(_n, getattr(_statistics, _n))
    MODELS.pop(getattr(_statistics, _n), None)
PY_MODELS[_random.randint.__func__] = m_randint
ALWAYS[_random.random] = m_random


def _dict_ctor(a, kw):
    """dict(pairs) where some keys are symbolic: concrete keys go into a real dict, symbolic ones into its side table,
    in order, so that a later pair with an equal key wins exactly as in a real dict"""
    if len(a) != 1 or isinstance(a[0], dict):
        return dict(*a, **kw)
    pairs = [tuple(p) for p in a[0]]
    if not any(symbolic(k) for k, _ in pairs):
        return dict(pairs, **kw)
    d = {}
    for k, v in pairs:
        sym_setitem(d, k, v)
    for k, v in kw.items():
        sym_setitem(d, k, v)
    return d


def sym_call(f, *a, **kw):
    if E.CURRENT is None:
        return f(*a, **kw)
    if f is dict and a:
        return _dict_ctor(a, kw)
    tf = type(f)
    func = None
    if tf is types.MethodType:
        func = f.__func__
    elif tf is types.FunctionType:
        func = f
    if func is not None:
        top = (getattr(func, '__module__', None) or '').split('.')[0]
        if top in NATIVE_TOPS:
            return f(*a, **kw)
        m = PY_MODELS.get(func)
        if m is not None:
            return m(*a, **kw)
        if any(deep_symbolic(x) for x in a) or any(deep_symbolic(x) for x in kw.values()):
            q = '%s.%s' % (getattr(func, '__module__', '?'), getattr(func, '__qualname__', '?'))
            UNMODELLED_LOG[q] = UNMODELLED_LOG.get(q, 0) + 1
            raise Unmodelled('library function %s with symbolic argument' % q)
        return f(*a, **kw)
    if tf is _BUILTIN_METHOD or tf is types.BuiltinFunctionType or tf is _CMETHOD:
        recv = getattr(f, '__self__', None)
        if isinstance(recv, str):
            if f.__name__ == 'join' or any_symbolic(a, kw):
                return _str_method(f, a, kw)
            return f(*a, **kw)
        if isinstance(recv, dict):
            return _dict_method(f, a, kw)
        if isinstance(recv, list):
            return _list_method(f, a, kw)
        if ALWAYS:
            try:
                alw = ALWAYS.get(f)
            except TypeError:
                alw = None
            if alw is not None:
                return alw(*a, **kw)
    if any_symbolic(a, kw):
        try:
            m = MODELS.get(f)
        except TypeError:
            m = None
        if m is not None:
            return m(*a, **kw)
        try:
            native = f in _PASS_NATIVE
        except TypeError:
            native = False
        if native:
            return f(*a, **kw)
        if tf in (types.BuiltinFunctionType, _BUILTIN_METHOD, _CMETHOD, type, types.MethodDescriptorType,
                  types.WrapperDescriptorType, types.MethodWrapperType):
            recv = getattr(f, '__self__', None)
            for hook in CALL_HOOKS:
                r = hook(f, recv, a, kw)
                if r is not NotImplemented:
                    return r
            if tf is type:
                if f in (list, tuple, dict, set, frozenset):
                    return f(*a, **kw)
                if issubclass(f, BaseException):
                    return f(*a, **kw)      # exception objects just carry their arguments
                if (getattr(f, '__module__', '') or '').split('.')[0] in NATIVE_TOPS:
                    return f(*a, **kw)   # classes of the repository / harness are ordinary python
            q = getattr(f, '__qualname__', repr(f))
            UNMODELLED_LOG[q] = UNMODELLED_LOG.get(q, 0) + 1
            raise Unmodelled('call %s(%s)' % (q, ', '.join(_tname(x) for x in a)))
    else:
        for hook in CONCRETE_HOOKS:
            r = hook(f, a, kw)
            if r is not NotImplemented:
                return r
    return f(*a, **kw)
