"""Helpers for writing postconditions that evaluate both on symbolic proxies (-> z3 formula) and on
plain Python values (-> bool), and JSON encoding of concrete inputs for replays."""
import datetime
from fractions import Fraction
import z3
from .values import SymBool, SymInt, SymFloat, SymStr, zbool, mkbool, is_sym


def _isz(x):
    return isinstance(x, SymBool) or z3.is_expr(x)


def _z(x):
    if isinstance(x, SymBool):
        return x.z
    if z3.is_expr(x):
        return x
    return z3.BoolVal(bool(x))


def wrap(z):
    if z3.is_expr(z):
        z = z3.simplify(z)
        if z3.is_true(z):
            return True
        if z3.is_false(z):
            return False
        return SymBool(z)
    return z


def And(*xs):
    xs = [x for x in xs if x is not True]
    if any(x is False for x in xs):
        return False
    if any(_isz(x) for x in xs):
        return wrap(z3.And(*[_z(x) for x in xs]))
    return all(bool(x) for x in xs)


def Or(*xs):
    xs = [x for x in xs if x is not False]
    if any(x is True for x in xs):
        return True
    if any(_isz(x) for x in xs):
        return wrap(z3.Or(*[_z(x) for x in xs]))
    return any(bool(x) for x in xs)


def Not(x):
    if _isz(x):
        return wrap(z3.Not(_z(x)))
    return not x


def Implies(a, b):
    return Or(Not(a), b)


def Iff(a, b):
    if _isz(a) or _isz(b):
        return wrap(_z(a) == _z(b))
    return bool(a) == bool(b)


def Ite(c, a, b):
    """value-level if-then-else on ints/bools (symbolic condition allowed)."""
    if _isz(c):
        from .values import zint, mkint
        za, zb = zint(a), zint(b)
        if za is not None and zb is not None and not isinstance(a, (bool, SymBool)):
            return mkint(z3.If(_z(c), za, zb))
        return wrap(z3.If(_z(c), _z(a), _z(b)))
    return a if c else b


def Xor(a, b):
    return Not(Iff(a, b))


def tb(x):
    """truth value of a post result as bool/SymBool"""
    if isinstance(x, SymBool) or isinstance(x, bool):
        return x
    if z3.is_expr(x):
        return wrap(x)
    return bool(x)


def same_type_eq(a, b):
    """a and b are the same kind of value and equal (bool is not int here)."""
    from .models import pytype
    ta, tb_ = pytype(a), pytype(b)
    if (ta is bool) != (tb_ is bool):
        return False
    if isinstance(a, (str, SymStr)) != isinstance(b, (str, SymStr)):
        return False
    if a is None or b is None:
        return a is None and b is None
    if isinstance(a, (list, tuple)) or isinstance(b, (list, tuple)):
        if not (isinstance(a, (list, tuple)) and isinstance(b, (list, tuple))) or len(a) != len(b):
            return False
        return And(*[same_type_eq(x, y) for x, y in zip(a, b)])
    r = (a == b)
    if r is NotImplemented:
        return False
    return r


# ------------------------------------------------------------------------------------------------
# JSON encoding of concrete values
def enc(v):
    if v is None or isinstance(v, (bool, int, str)):
        return v
    if isinstance(v, float):
        return {'f': repr(v)}
    if isinstance(v, Fraction):
        return {'f': repr(float(v)), 'q': [str(v.numerator), str(v.denominator)]}
    if isinstance(v, complex):
        return {'c': [repr(v.real), repr(v.imag)]}
    if isinstance(v, datetime.datetime):
        j = {'dt': [v.year, v.month, v.day, v.hour, v.minute, v.second, v.microsecond]}
        if type(v) is not datetime.datetime:
            j['sub'] = 1        # an instance of a datetime subclass (host class)
        return j
    if isinstance(v, list):
        return [enc(x) for x in v]
    if isinstance(v, tuple):
        return {'t': [enc(x) for x in v]}
    if isinstance(v, dict):
        return {'d': {k: enc(x) for k, x in v.items()}}
    if isinstance(v, BaseException):
        if type(v).__name__ == 'XLError':
            return {'err': str(v)}
        return {'exc': type(v).__name__, 'msg': str(v)}
    return {'repr': repr(v)}


def dec(j, env=None):
    if j is None or isinstance(j, (bool, int, str)):
        return j
    if isinstance(j, list):
        return [dec(x, env) for x in j]
    if isinstance(j, dict):
        if 'f' in j:
            return float(j['f'])
        if 'c' in j:
            return complex(float(j['c'][0]), float(j['c'][1]))
        if 'dt' in j:
            if j.get('sub'):
                from .dates import HostStamp
                return HostStamp(*j['dt'])
            return datetime.datetime(*j['dt'])
        if 't' in j:
            return tuple(dec(x, env) for x in j['t'])
        if 'd' in j:
            return {k: dec(x, env) for k, x in j['d'].items()}
        if 'err' in j:
            return env.error_by_code(j['err'])
        if 'exc' in j:
            import builtins
            return getattr(builtins, j['exc'], RuntimeError)(j['msg'])
        if 'repr' in j:
            return j['repr']
    raise ValueError('cannot decode %r' % (j,))


def concretize(v, model):
    """Concrete Python value of a (possibly symbolic / nested) value under a z3 model."""
    if isinstance(v, SymInt):
        return model.eval(v.z, model_completion=True).as_long()
    if isinstance(v, SymBool):
        return z3.is_true(model.eval(v.z, model_completion=True))
    if isinstance(v, SymStr):
        out = []
        for c in v.cps:
            out.append(chr(c) if isinstance(c, int) else chr(model.eval(c, model_completion=True).as_long()))
        return ''.join(out)
    if isinstance(v, SymFloat):
        if v.iz is not None:
            return float(model.eval(v.iz, model_completion=True).as_long())
        if v._r is None and v.quot is not None:
            x = model.eval(v.quot[0], model_completion=True).as_long()
            y = model.eval(v.quot[1], model_completion=True).as_long()
            return x / y          # Python's own correctly rounded int / int
        r = model.eval(v.r, model_completion=True)
        if z3.is_algebraic_value(r):
            r = r.approx(30)
        fr = Fraction(r.numerator_as_long(), r.denominator_as_long())
        return float(fr)
    c = getattr(v, '__sym_concretize__', None)
    if c is not None:
        return c(model)
    if isinstance(v, list):
        return [concretize(x, model) for x in v]
    if isinstance(v, tuple):
        return tuple(concretize(x, model) for x in v)
    if isinstance(v, dict):
        return {k: concretize(x, model) for k, x in v.items()}
    return v
