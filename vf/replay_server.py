"""Pristine side: imports the scratch copy WITHOUT instrumentation and evaluates harness run/post concretely.
Protocol: one JSON request per line on stdin -> one JSON answer per line on stdout."""
import json
import sys
import traceback


class StepBudgetExceeded(BaseException):
    pass


def main():
    scratch = sys.argv[1]
    out = sys.stdout
    sys.stdout = sys.stderr    # anything the code under test prints must not corrupt the protocol
    from vf import loader, spec
    from vf.harness import REGISTRY, Env, Raised
    from vf import runner
    hot = loader.install_pristine(scratch)
    runner.load_harnesses()
    env = Env(hot, False)
    for line in sys.stdin:
        line = line.strip()
        if not line:
            continue
        req = json.loads(line)
        ans = evaluate(req, env, spec, REGISTRY, Raised)
        out.write(json.dumps(ans) + '\n')
        out.flush()


def concrete_truth(ok):
    """truth of a postcondition evaluated on concrete values (it may still be a closed z3 term)"""
    import z3
    z = getattr(ok, 'z', None)
    if z is None and z3.is_expr(ok):
        z = ok
    if z is None:
        return bool(ok)
    z = z3.simplify(z)
    if z3.is_true(z):
        return True
    if z3.is_false(z):
        return False
    s = z3.Solver()
    s.add(z3.Not(z))
    r = s.check()
    if r == z3.unsat:
        return True
    if r == z3.sat:
        s2 = z3.Solver()
        s2.add(z)
        if s2.check() == z3.unsat:
            return False
    raise RuntimeError('postcondition did not evaluate to a truth value on concrete inputs: %s' % z)


def evaluate(req, env, spec, REGISTRY, Raised):
    try:
        h = REGISTRY[req['h']]
        p = req['p']
        inp = spec.dec(req['i'], env)
        budget = [h.step_budget]

        def tracer(frame, event, arg):
            budget[0] -= 1
            if budget[0] < 0:
                raise StepBudgetExceeded()
            return tracer
        try:
            sys.settrace(tracer)
            try:
                outcome = h.run(env, inp, p)
            finally:
                sys.settrace(None)
        except StepBudgetExceeded:
            return {'status': 'hang', 'detail': 'more than %d line events' % h.step_budget}
        except Exception as ex:
            # an exception raised by the harness's own code (e.g. incomplete inputs of a bug-hunting replay) is not
            # an observation of the code under test
            tb = ex.__traceback__
            last = None
            while tb is not None:
                last = tb.tb_frame.f_code.co_filename
                tb = tb.tb_next
            if last and '/vf/' in last.replace('\\', '/'):
                return {'status': 'error', 'detail': 'harness-side %s: %s' % (type(ex).__name__, ex)}
            outcome = Raised(ex)
        ok = concrete_truth(h.post(env, inp, outcome, p))
        if ok:
            return {'status': 'ok', 'outcome': repr(outcome)[:300]}
        return {'status': 'violated', 'outcome': repr(outcome)[:300]}
    except StepBudgetExceeded:
        return {'status': 'hang', 'detail': 'step budget'}
    except BaseException as ex:
        return {'status': 'error', 'detail': ''.join(traceback.format_exception(type(ex), ex, ex.__traceback__))[-1500:]}


if __name__ == '__main__':
    main()
