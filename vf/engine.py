"""Engine S core: path exploration by re-execution with a decision prefix.

The repository's real code is *called* (CPython executes it); symbolic proxies (values.py) carry z3
terms through it; every bool() of a symbolic condition lands in Engine.branch, which asks the
solver which sides are feasible under the current path condition, follows one and queues the other.
"""
import time
import z3


class Unmodelled(BaseException):
    """A symbolic value reached an operation the engine has no model for. Never a success."""


class UnwindExceeded(BaseException):
    """Iteration / decision budget exhausted on this path (the unwinding assertion)."""


class PathAbort(BaseException):
    """Path condition infeasible (an assume() cut it)."""


CURRENT = None


def cur():
    if CURRENT is None:
        raise RuntimeError('no symbolic engine active')
    return CURRENT


def active():
    return CURRENT is not None


class PathResult(object):
    __slots__ = ('decisions', 'status', 'value', 'detail')

    def __init__(self, decisions, status, value=None, detail=None):
        self.decisions = decisions
        self.status = status      # ok | unmodelled | unwind | infeasible
        self.value = value
        self.detail = detail


class Engine(object):
    def __init__(self, max_decisions=4000, max_ticks=200000, solver_timeout_ms=60000, max_paths=2000000, z3_first_ms=8000,
                 deadline=None):
        self.max_decisions = max_decisions
        self.max_ticks = max_ticks
        self.solver_timeout_ms = solver_timeout_ms
        self.z3_first_ms = z3_first_ms
        self.max_paths = max_paths
        self.deadline = deadline
        self.stats = dict(paths=0, solver_calls=0, solver_time=0.0, forks=0, nonlinear=0)
        self.truncated = False
        self.notes = []

    # ------------------------------------------------------------------ exploration
    def explore(self, fn):
        """fn(engine) runs once per path.  Returns list of PathResult."""
        global CURRENT
        work = [[]]
        results = []
        while work:
            if len(results) >= self.max_paths or (self.deadline and time.time() > self.deadline):
                self.truncated = True
                break
            prefix = work.pop()
            self.decisions = list(prefix)
            self.pos = 0
            self.solver = z3.Solver()
            self.solver.set('timeout', min(self.z3_first_ms, self.solver_timeout_ms))
            self.pending = []
            self.ticks = 0
            self.nfresh = 0
            self.uf_cache = {}
            self.path_notes = []
            CURRENT = self
            try:
                try:
                    out = PathResult(None, 'ok', fn(self))
                except Unmodelled as e:
                    out = PathResult(None, 'unmodelled', None, str(e))
                except UnwindExceeded as e:
                    out = PathResult(None, 'unwind', None, str(e))
                    # keep a model of the diverging path for the termination replay
                    try:
                        if self.solver.check() == z3.sat:
                            out.value = self.solver.model()
                    except Exception:
                        pass
                except PathAbort:
                    out = PathResult(None, 'infeasible')
                except RecursionError as e:
                    out = PathResult(None, 'unmodelled', None, 'RecursionError in harness: %s' % e)
            finally:
                CURRENT = None
            out.decisions = list(self.decisions)
            self.stats['paths'] += 1
            results.append(out)
            work.extend(self.pending)
        return results

    # ------------------------------------------------------------------ solver
    def check(self, *assumptions):
        t0 = time.time()
        self._model = None
        r = self.solver.check(*assumptions)
        self.stats['solver_calls'] += 1
        if r == z3.unknown:
            r = self._fallback(assumptions)
        self.stats['solver_time'] += time.time() - t0
        if r == z3.unknown:
            raise Unmodelled('solver unknown: %s' % self.solver.reason_unknown())
        return r == z3.sat

    def get_model(self):
        """Model of the last satisfiable check()."""
        if self._model is not None:
            return self._model
        return self.solver.model()

    def _fallback(self, assumptions):
        """z3 answered unknown (typically non-linear integer arithmetic): ask cvc5 for the same assertions.
        unsat is taken as is (cross-solver); for sat, cvc5's values are handed back to z3 to rebuild a model."""
        self.stats['cvc5_calls'] = self.stats.get('cvc5_calls', 0) + 1
        try:
            import cvc5
        except ImportError:
            return z3.unknown
        s2 = z3.Solver()
        s2.add(*self.solver.assertions())
        s2.add(*assumptions)
        consts = {}
        def walk(t, seen=set()):
            if t.get_id() in seen:
                return
            seen.add(t.get_id())
            if z3.is_const(t) and t.decl().kind() == z3.Z3_OP_UNINTERPRETED:
                consts[str(t)] = t
            for c in t.children():
                walk(c, seen)
        for a in s2.assertions():
            walk(a, set())
        text = '(set-logic ALL)\n' + s2.to_smt2()
        names = list(consts)
        if names:
            text = text.replace('(check-sat)', '(check-sat)\n(get-value (%s))' % ' '.join('|%s|' % n if not n.replace('_', 'a').isalnum() else n for n in names))
        try:
            slv = cvc5.Solver()
            slv.setOption('tlimit-per', str(min(self.solver_timeout_ms, 60000)))
            slv.setOption('produce-models', 'true')
            ip = cvc5.InputParser(slv)
            ip.setStringInput(cvc5.InputLanguage.SMT_LIB_2_6, text, 'q')
            sm = ip.getSymbolManager()
            outs = []
            while True:
                c = ip.nextCommand()
                if c.isNull():
                    break
                o = c.invoke(slv, sm)
                if o.strip():
                    outs.append(o.strip())
        except Exception as ex:
            self.notes.append('cvc5 fallback failed: %s' % ex)
            return z3.unknown
        if not outs:
            return z3.unknown
        if outs[0] == 'unsat':
            return z3.unsat
        if outs[0] != 'sat' or len(outs) < 2 or outs[1].startswith('(error'):
            return z3.unknown
        # rebuild a z3 model from cvc5's values
        try:
            vals = z3.parse_smt2_string('(assert true)')  # noqa (ensures parser is available)
            s3 = z3.Solver()
            s3.set('timeout', 20000)
            s3.add(*s2.assertions())
            body = outs[1].strip()[1:-1]
            for name, t in consts.items():
                pass
            decls = {n: t for n, t in consts.items()}
            eqs = z3.parse_smt2_string(''.join('(assert (= %s %s))' % (k, v) for k, v in _pairs(body)), decls=decls)
            s3.add(*eqs)
            if s3.check() == z3.sat:
                self._model = s3.model()
                return z3.sat
        except Exception as ex:
            self.notes.append('cvc5 model import failed: %s' % ex)
        return z3.unknown

    def add(self, *zs):
        for z in zs:
            self.solver.add(z)

    def assume(self, cond):
        z = cond.z if hasattr(cond, 'z') else (z3.BoolVal(cond) if isinstance(cond, bool) else cond)
        self.solver.add(z)
        if not self.check():
            raise PathAbort()

    def must(self, z):
        """True iff z holds on every model of the current path condition."""
        return not self.check(z3.Not(z))

    def branch(self, z):
        z = z3.simplify(z)
        if z3.is_true(z):
            return True
        if z3.is_false(z):
            return False
        if self.pos < len(self.decisions):
            d = self.decisions[self.pos]
            self.pos += 1
            self.solver.add(z if d else z3.Not(z))
            return bool(d)
        if len(self.decisions) >= self.max_decisions:
            raise UnwindExceeded('decision bound %d' % self.max_decisions)
        can_t = self.check(z)
        can_f = self.check(z3.Not(z))
        if can_t and can_f:
            self.pending.append(self.decisions + [0])
            self.stats['forks'] += 1
            d = 1
        elif can_t:
            d = 1
        elif can_f:
            d = 0
        else:
            raise PathAbort()
        self.decisions.append(d)
        self.pos += 1
        self.solver.add(z if d else z3.Not(z))
        return bool(d)

    def choose(self, n):
        """Non-solver fork: returns each of 0..n-1 on some path."""
        if n <= 0:
            raise PathAbort()
        if n == 1:
            return 0
        if self.pos < len(self.decisions):
            d = self.decisions[self.pos]
            self.pos += 1
            return d
        for k in range(n - 1, 0, -1):
            self.pending.append(self.decisions + [k])
        self.stats['forks'] += n - 1
        self.decisions.append(0)
        self.pos += 1
        return 0

    def tick(self):
        self.ticks += 1
        if self.ticks > self.max_ticks:
            raise UnwindExceeded('iteration budget %d' % self.max_ticks)

    # ------------------------------------------------------------------ fresh symbols
    def _name(self, name):
        self.nfresh += 1
        return name

    def fresh_int(self, name, lo=None, hi=None):
        from .values import SymInt
        v = z3.Int(self._name(name))
        if lo is not None:
            self.solver.add(v >= lo)
        if hi is not None:
            self.solver.add(v <= hi)
        return SymInt(v)

    def fresh_bool(self, name):
        from .values import SymBool
        return SymBool(z3.Bool(self._name(name)))

    def fresh_real(self, name, lo=None, hi=None):
        from .values import SymFloat
        v = z3.Real(self._name(name))
        if lo is not None:
            self.solver.add(v >= lo)
        if hi is not None:
            self.solver.add(v <= hi)
        return SymFloat(r=v)

    def fresh_str(self, name, length, lo=0, hi=0x10FFFF, alphabet=None):
        """A string of concrete length whose characters are arbitrary code points in [lo, hi]
        (or in `alphabet`, a list of (lo, hi) ranges)."""
        from .values import SymStr
        cs = []
        for i in range(length):
            c = z3.Int('%s_%d' % (name, i))
            self.nfresh += 1
            if alphabet is not None:
                self.solver.add(z3.Or(*[(c == a) if a == b else z3.And(c >= a, c <= b) for a, b in alphabet]))
            else:
                self.solver.add(c >= lo, c <= hi)
            cs.append(c)
        return SymStr(tuple(cs))

    def model(self):
        if not self.check():
            raise PathAbort()
        return self.get_model()


def _pairs(body):
    """split '(a 1) (b (- 2))' into [(a, '1'), (b, '(- 2)')]"""
    out = []
    depth = 0
    cur = ''
    for ch in body:
        if ch == '(':
            depth += 1
            if depth == 1:
                cur = ''
                continue
        if ch == ')':
            depth -= 1
            if depth == 0:
                k, _, v = cur.strip().partition(' ')
                out.append((k, v.strip()))
                continue
        if depth >= 1:
            cur += ch
    return out
