"""Engine S core: path exploration by re-execution with a decision prefix.

The repository's real code is *called* (CPython executes it); symbolic proxies (values.py) carry z3
terms through it; every bool() of a symbolic condition lands in Engine.branch, which asks the
solver which sides are feasible under the current path condition, follows one and queues the other.
"""
import os
import time
import z3


class Unmodelled(BaseException):
    """A symbolic value reached an operation the engine has no model for. Never a success."""


class UnwindExceeded(BaseException):
    """Iteration / decision budget exhausted on this path (the unwinding assertion)."""


class PathAbort(BaseException):
    """Path condition infeasible (an assume() cut it)."""


class CaseDeadline(BaseException):
    """The wall-clock budget of the case ran out in the middle of a path."""


CURRENT = None


def cur():
    if CURRENT is None:
        raise RuntimeError('no symbolic engine active')
    return CURRENT


def active():
    return CURRENT is not None


class PathResult(object):
    __slots__ = ('decisions', 'status', 'value', 'detail')

    def __init__(self, decisions, status, value=None, detail=None):
        self.decisions = decisions
        self.status = status      # ok | unmodelled | unwind | infeasible
        self.value = value
        self.detail = detail


class Engine(object):
    def __init__(self, max_decisions=4000, max_ticks=200000, solver_timeout_ms=60000, max_paths=2000000, z3_first_ms=2500,
                 deadline=None):
        self.max_decisions = max_decisions
        self.max_ticks = max_ticks
        self.solver_timeout_ms = solver_timeout_ms
        self.z3_first_ms = z3_first_ms
        self.max_paths = max_paths
        self.deadline = deadline
        self.stats = dict(paths=0, solver_calls=0, solver_time=0.0, forks=0, nonlinear=0)
        self.truncated = False
        self.notes = []

    # ------------------------------------------------------------------ exploration
    def explore(self, fn):
        """fn(engine) runs once per path.  Returns list of PathResult."""
        global CURRENT
        work = [[]]
        results = []
        while work:
            if len(results) >= self.max_paths or (self.deadline and time.time() > self.deadline):
                self.truncated = True
                break
            prefix = work.pop()
            self.reset_path(prefix)
            CURRENT = self
            try:
                try:
                    out = PathResult(None, 'ok', fn(self))
                except Unmodelled as e:
                    out = PathResult(None, 'unmodelled', None, str(e))
                except UnwindExceeded as e:
                    out = PathResult(None, 'unwind', None, str(e))
                    # keep a model of the diverging path for the termination replay
                    try:
                        if self.solver.check() == z3.sat:
                            out.value = self.solver.model()
                    except Exception:
                        pass
                except PathAbort:
                    out = PathResult(None, 'infeasible')
                except CaseDeadline:
                    self.truncated = True
                    out = PathResult(list(self.decisions), 'deadline', None, 'case deadline reached inside this path')
                    self.stats['paths'] += 1
                    results.append(out)
                    break
                except RecursionError as e:
                    out = PathResult(None, 'unmodelled', None, 'RecursionError in harness: %s' % e)
            finally:
                CURRENT = None
            out.decisions = list(self.decisions)
            self.stats['paths'] += 1
            results.append(out)
            work.extend(self.pending)
        return results

    def reset_path(self, prefix):
        self.decisions = list(prefix)
        self.pos = 0
        self.solver = z3.Solver()
        self.solver.set('timeout', min(self.z3_first_ms, self.solver_timeout_ms))
        self.pending = []
        self.ticks = 0
        self.nfresh = 0
        self.uf_cache = {}
        self.bounds = {}
        self.path_notes = []
        self.math_calls = []
        self.exact_floats = False
        self.float_bound = 'absolute'
        self.symdict = None
        self._model = None

    # ------------------------------------------------------------------ solver
    def check(self, *assumptions):
        t0 = time.time()
        if self.deadline and t0 > self.deadline:
            raise CaseDeadline()
        self._model = None
        r = self.solver.check(*assumptions)
        self.stats['solver_calls'] += 1
        if r == z3.unknown:
            r = self._fallback(assumptions)
        dt = time.time() - t0
        self.stats['solver_time'] += dt
        if dt > 2 and os.environ.get('VERIF_TRACE_SLOW'):
            import sys
            print('SLOW %.1fs %s decisions=%d assumptions=%s' % (dt, r, len(self.decisions), [str(a)[:300] for a in assumptions]), file=sys.stderr, flush=True)
            if os.environ.get('VERIF_TRACE_SLOW') == 'dump':
                s2 = z3.Solver(); s2.add(*self.solver.assertions()); s2.add(*assumptions)
                open('/tmp/slow_%d.smt2' % self.stats['solver_calls'], 'w').write(s2.to_smt2())
        if r == z3.unknown:
            raise Unmodelled('solver unknown: %s' % self.solver.reason_unknown())
        return r == z3.sat

    def feasible(self, z):
        """check() for branch feasibility: a solver 'unknown' is treated as feasible -- exploring a path whose condition
        is in fact unsatisfiable is sound (its verdicts are vacuous, its witnesses would not replay)."""
        try:
            return self.check(z)
        except Unmodelled:
            self.stats['assumed_feasible'] = self.stats.get('assumed_feasible', 0) + 1
            return True

    def get_model(self):
        """Model of the last satisfiable check()."""
        if self._model is not None:
            return self._model
        return self.solver.model()

    def _fallback(self, assumptions):
        """z3 5.x answered unknown: pose the same assertions to other solvers -- the z3 4.8 binary (often much better
        on mixed integer/real arithmetic with div/mod), then cvc5.  unsat is taken as is; for sat the reported
        values are handed back to z3 to rebuild (and thereby re-check) a model."""
        s2 = z3.Solver()
        s2.add(*self.solver.assertions())
        s2.add(*assumptions)
        consts = {}

        def walk(t, seen):
            if t.get_id() in seen:
                return
            seen.add(t.get_id())
            if z3.is_const(t) and t.decl().kind() == z3.Z3_OP_UNINTERPRETED:
                consts[str(t)] = t
            for c in t.children():
                walk(c, seen)
        seen = set()
        for a in s2.assertions():
            walk(a, seen)
        text = '(set-logic ALL)\n' + s2.to_smt2()
        names = list(consts)
        if names:
            q = lambda n: n if n.replace('_', 'a').isalnum() else '|%s|' % n
            text = text.replace('(check-sat)', '(check-sat)\n(get-value (%s))' % ' '.join(q(n) for n in names))
        outs_list = self._portfolio(text)
        for outs in outs_list:
            if not outs:
                continue
            if outs[0] == 'unsat':
                return z3.unsat
            if outs[0] != 'sat' or len(outs) < 2 or outs[1].startswith('(error'):
                continue
            try:
                s3 = z3.Solver()
                s3.set('timeout', 20000)
                s3.add(*s2.assertions())
                body = outs[1].strip()[1:-1]
                eqs = z3.parse_smt2_string(''.join('(assert (= %s %s))' % (k, v) for k, v in _pairs(body)), decls=dict(consts))
                s3.add(*eqs)
                if s3.check() == z3.sat:
                    self._model = s3.model()
                    return z3.sat
            except Exception as ex:
                self.notes.append('model import failed: %s' % ex)
        return z3.unknown

    def _portfolio(self, text):
        """z3 4.8 binary and cvc5 binary side by side on the same SMT-LIB text; first definitive answer wins."""
        import subprocess
        import tempfile
        t = max(5, min(self.solver_timeout_ms // 1000, 60))
        self.stats['portfolio_calls'] = self.stats.get('portfolio_calls', 0) + 1
        f = tempfile.NamedTemporaryFile('w', suffix='.smt2', delete=False)
        f.write(text)
        f.close()
        procs = []
        try:
            if os.path.exists('/usr/bin/z3'):
                procs.append(('z3-4.8', subprocess.Popen(['/usr/bin/z3', '-T:%d' % t, f.name], stdout=subprocess.PIPE,
                                                         stderr=subprocess.DEVNULL, text=True)))
            import shutil
            cv = shutil.which('cvc5')
            if cv:
                procs.append(('cvc5', subprocess.Popen([cv, '--tlimit=%d' % (t * 1000), '--produce-models', f.name],
                                                       stdout=subprocess.PIPE, stderr=subprocess.DEVNULL, text=True)))
            results = []
            t_end = time.time() + t + 5
            pending = list(procs)
            while pending and time.time() < t_end:
                for name, p in list(pending):
                    if p.poll() is not None:
                        pending.remove((name, p))
                        out = (p.stdout.read() or '').strip()
                        first, _, rest = out.partition('\n')
                        res = [first.strip(), rest.strip()] if rest.strip() else [first.strip()]
                        if res[0] in ('sat', 'unsat'):
                            self.stats['won_' + name] = self.stats.get('won_' + name, 0) + 1
                            for _, q in pending:
                                q.kill()
                                q.wait()
                            return [res]
                        results.append(res)
                time.sleep(0.01)
            for _, q in pending:
                q.kill()
                q.wait()
            return results
        finally:
            try:
                os.unlink(f.name)
            except OSError:
                pass

    def _run_z3_old(self, text):
        import subprocess
        import shutil
        exe = '/usr/bin/z3'
        if not os.path.exists(exe):
            return None
        self.stats['z3old_calls'] = self.stats.get('z3old_calls', 0) + 1
        t = max(5, min(self.solver_timeout_ms // 1000, 30))
        p = subprocess.run([exe, '-T:%d' % t, '-in'], input=text, capture_output=True, text=True, timeout=t + 10)
        out = p.stdout.strip()
        if not out:
            return None
        first, _, rest = out.partition('\n')
        return [first.strip(), rest.strip()] if rest.strip() else [first.strip()]

    def _run_cvc5(self, text):
        self.stats['cvc5_calls'] = self.stats.get('cvc5_calls', 0) + 1
        import cvc5
        slv = cvc5.Solver()
        slv.setOption('tlimit-per', str(min(self.solver_timeout_ms, 60000)))
        slv.setOption('produce-models', 'true')
        ip = cvc5.InputParser(slv)
        ip.setStringInput(cvc5.InputLanguage.SMT_LIB_2_6, text, 'q')
        sm = ip.getSymbolManager()
        outs = []
        while True:
            c = ip.nextCommand()
            if c.isNull():
                break
            o = c.invoke(slv, sm)
            if o.strip():
                outs.append(o.strip())
        return outs

    def add(self, *zs):
        for z in zs:
            self.solver.add(z)

    def bounded(self, zvar, lo, hi):
        """assert lo <= zvar <= hi and record it for interval analysis"""
        if lo is not None:
            self.solver.add(zvar >= lo)
        if hi is not None:
            self.solver.add(zvar <= hi)
        self.bounds[str(zvar)] = (lo, hi)

    def assume(self, cond):
        z = cond.z if hasattr(cond, 'z') else (z3.BoolVal(cond) if isinstance(cond, bool) else cond)
        self.solver.add(z)
        if not self.check():
            raise PathAbort()

    def must(self, z):
        """True iff z holds on every model of the current path condition."""
        return not self.check(z3.Not(z))

    def branch(self, z):
        z = z3.simplify(z)
        if z3.is_true(z):
            return True
        if z3.is_false(z):
            return False
        if self.pos < len(self.decisions):
            d = self.decisions[self.pos]
            self.pos += 1
            self.solver.add(z if d else z3.Not(z))
            return bool(d)
        if len(self.decisions) >= self.max_decisions:
            raise UnwindExceeded('decision bound %d' % self.max_decisions)
        can_t = self.feasible(z)
        can_f = self.feasible(z3.Not(z))
        if can_t and can_f:
            self.pending.append(self.decisions + [0])
            self.stats['forks'] += 1
            d = 1
        elif can_t:
            d = 1
        elif can_f:
            d = 0
        else:
            raise PathAbort()
        self.decisions.append(d)
        self.pos += 1
        self.solver.add(z if d else z3.Not(z))
        return bool(d)

    def choose(self, n):
        """Non-solver fork: returns each of 0..n-1 on some path."""
        if n <= 0:
            raise PathAbort()
        if n == 1:
            return 0
        if self.pos < len(self.decisions):
            d = self.decisions[self.pos]
            self.pos += 1
            return d
        for k in range(n - 1, 0, -1):
            self.pending.append(self.decisions + [k])
        self.stats['forks'] += n - 1
        self.decisions.append(0)
        self.pos += 1
        return 0

    def tick(self):
        self.ticks += 1
        if self.ticks > self.max_ticks:
            raise UnwindExceeded('iteration budget %d' % self.max_ticks)

    # ------------------------------------------------------------------ fresh symbols
    def _name(self, name):
        self.nfresh += 1
        return name

    def fresh_int(self, name, lo=None, hi=None):
        from .values import SymInt
        v = z3.Int(self._name(name))
        if lo is not None:
            self.solver.add(v >= lo)
        if hi is not None:
            self.solver.add(v <= hi)
        self.bounds[name] = (lo, hi)
        return SymInt(v)

    def fresh_bool(self, name):
        from .values import SymBool
        return SymBool(z3.Bool(self._name(name)))

    def fresh_real(self, name, lo=None, hi=None):
        from .values import SymFloat
        v = z3.Real(self._name(name))
        if lo is not None:
            self.solver.add(v >= lo)
        if hi is not None:
            self.solver.add(v <= hi)
        self.bounds[name] = (lo, hi)
        return SymFloat(r=v)

    def fresh_dyadic(self, name, k, lo=None, hi=None):
        """a double whose value is exactly num / 2^k for a fresh integer num in [lo, hi] (|num| <= 2^53)"""
        from .values import SymFloat
        num = self.fresh_int(name, lo if lo is not None else -(2 ** 52), hi if hi is not None else 2 ** 52)
        return SymFloat(dy=(num.z, k))

    def fresh_str(self, name, length, lo=0, hi=0x10FFFF, alphabet=None):
        """A string of concrete length whose characters are arbitrary code points in [lo, hi]
        (or in `alphabet`, a list of (lo, hi) ranges)."""
        from .values import SymStr
        cs = []
        for i in range(length):
            c = z3.Int('%s_%d' % (name, i))
            self.nfresh += 1
            if alphabet is not None:
                self.solver.add(z3.Or(*[(c == a) if a == b else z3.And(c >= a, c <= b) for a, b in alphabet]))
            else:
                self.solver.add(c >= lo, c <= hi)
            cs.append(c)
        return SymStr(tuple(cs))

    def model(self):
        if not self.check():
            raise PathAbort()
        return self.get_model()


def _pairs(body):
    """split '(a 1) (b (- 2))' into [(a, '1'), (b, '(- 2)')]"""
    out = []
    depth = 0
    cur = ''
    for ch in body:
        if ch == '(':
            depth += 1
            if depth == 1:
                cur = ''
                continue
        if ch == ')':
            depth -= 1
            if depth == 0:
                k, _, v = cur.strip().partition(' ')
                out.append((k, v.strip()))
                continue
        if depth >= 1:
            cur += ch
    return out
