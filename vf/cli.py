import argparse
import json
import os
import sys


def main():
    ap = argparse.ArgumentParser()
    sub = ap.add_subparsers(dest='cmd')
    c = sub.add_parser('check')
    c.add_argument('pid')
    c.add_argument('--tier', default=os.environ.get('VERIF_TIER', 'quick'))
    c.add_argument('--replay')
    c.add_argument('--only', action='append')
    c.add_argument('--jobs', type=int)
    c.add_argument('-v', action='store_true')
    sub.add_parser('selftest')
    a = ap.parse_args()
    seed = int(os.environ.get('VERIF_SEED', '0') or 0)
    if a.cmd == 'selftest':
        from . import selftest
        sys.exit(selftest.main())
    if a.cmd == 'check':
        from . import runner
        if a.replay:
            sys.exit(replay_file(a.replay))
        rc = runner.run_property(a.pid, a.tier, seed, a.jobs, a.only, a.v)
        sys.exit(rc)
    ap.print_help()
    sys.exit(2)


def replay_file(path):
    """Re-run one recorded violation on the pristine code (current /repo working tree)."""
    from . import loader, runner, spec
    rec = json.load(open(path))
    scratch = loader.make_scratch()
    rc = runner.ReplayClient(scratch)
    ans = rc.call(rec['harness'], rec['params'], rec['inputs'])
    rc.close()
    print(json.dumps(ans, indent=1))
    if ans.get('status') in ('violated', 'hang', 'raised'):
        print('VIOLATION property=%s replay=%s' % (rec['property'], path))
        return 1
    return 0 if ans.get('status') == 'ok' else 2


if __name__ == '__main__':
    main()
