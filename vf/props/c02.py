"""C02 - evaluation is a pure, repeatable function of formula and registered bindings."""
import gc
import sys
import z3
from ..harness import Harness, register, Raised
from ..spec import And, Or, Not, Implies, tb, same_type_eq
from ..values import SymInt, SymBool, SymStr, zint, mkint, mkbool
from .. import engine as E
from .common import ok_result, err_is, is_record, isint, CODES
from .c03 import same_outcome

# first evaluations (history): valid, erroneous, aborted by a raising callback
F1 = ['va+1', 'SUM(va,{1,2})*vb', '1/0', 'NOSUCH(1)', 'unknownvar', 'SUM(', '"abc', 'BOOM(1)', 'A1+1', 'IFERROR(1/0,va)',
      'CONCATENATE(va,",",vb)', '#N/A', 'va&vb', 'SUM(1/0)', 'LARGE({3,1,2},va)', 'A1:B2', 'ARABIC("x")', 'va<vb',
      'SUM(C3:A1)', 'INDEX(B3:C1,1,1)', 'SUM(1,2)', 'MAX(va,vb)']
# second evaluations, compared with a fresh parser
F2 = ['va*2-vb', 'IF(va>vb,"gt","le")', 'SUM(va,vb,3)', 'vb/0', 'NOSUCH(va)', 'A1', 'C3', 'C1+B3', 'MAX({1,2},va)', 'va&"z"', 'B(', 'ISERROR(1/0)',
      'LEN("abc")+va', 'AVERAGE(va,vb)']


def bind(env, P, inp, raising=True):
    P.set_variable('va', inp['a'])
    P.set_variable('vb', inp['b'])
    if raising:
        def boom(*a):
            raise ValueError('host callback failure')
        P.set_function('BOOM', boom)
    # what a cell or range evaluates to depends on the coordinates delivered with the event
    P.on('callCellValue', lambda cell, s: s(inp['a'] + 100 * cell.row.index + cell.col.index))
    P.on('callRangeValue', lambda a, b, s: s([[inp['a'], inp['b']], [100 * a.row.index + a.col.index, 100 * b.row.index + b.col.index]]))


@register
class History(Harness):
    name = 'C02.history'
    prop = 'C02'
    doc = 'the outcome of an evaluation is the same on a fresh parser and after an earlier evaluation (valid, erroneous or ' \
          'aborted by a raising callback), and with debug output on or off'
    functions = ('Parser.parse', 'grammarparser.parser.Parser.parse', 'ply.yacc.LRParser.parse', 'error.from_message', 'Parser.call_function')
    bounds = 'histories of length 1 and 2 drawn from %d first evaluations followed by one of %d second evaluations; variable ' \
             'values symbolic integers; both debug settings' % (len(F1), len(F2))
    outside = ('longer histories (every evaluation starts from the same parser state if this step holds: see C02.state)',)

    def cases(self, tier):
        out = []
        for i in range(len(F1)):
            for j in range(len(F2)):
                out.append({'i': i, 'j': j})
        return out

    def build(self, e, p):
        return {'a': e.fresh_int('a', -100, 100), 'b': e.fresh_int('b', -100, 100)}

    def run(self, env, inp, p):
        import io
        import contextlib
        P = env.Parser()
        bind(env, P, inp)
        P.parse(F1[p['i']])
        P.parse(F1[(p['i'] + 5) % len(F1)])
        after = P.parse(F2[p['j']])
        Q = env.Parser()
        bind(env, Q, inp)
        fresh = Q.parse(F2[p['j']])
        D = env.Parser(debug=True)
        bind(env, D, inp)
        buf = io.StringIO()
        with contextlib.redirect_stderr(buf), contextlib.redirect_stdout(buf):
            D.parse(F1[p['i']])
            dbg = D.parse(F2[p['j']])
        return [after, fresh, dbg]

    def post(self, env, inp, out, p):
        if isinstance(out, Raised):
            return False
        after, fresh, dbg = out
        return And(same_outcome(after, fresh), same_outcome(dbg, fresh))


def tb_len(exc):
    n = 0
    t = exc.__traceback__
    while t is not None:
        n += 1
        t = t.tb_next
    return n


_LEAF = (str, bytes, int, float, complex, bool, type(None))


def deep_size(root, depth=7):
    """number of container slots reachable from root through instance attributes, lists, tuples, sets and dicts (cycle-safe,
    depth-limited; functions, classes, modules and compiled patterns are leaves): a structural measure that any cache,
    memo, note list or retained chain makes grow"""
    import types
    seen = set()
    total = 0
    stack = [(root, 0)]
    while stack:
        o, d = stack.pop()
        if isinstance(o, _LEAF) or isinstance(o, (types.FunctionType, types.BuiltinFunctionType, types.ModuleType, type, types.MethodType)):
            continue
        if type(o).__module__.startswith('vf.') or type(o).__module__ in ('z3.z3', 're'):
            continue        # symbolic proxies / solver terms / patterns are leaves
        if id(o) in seen or d > depth:
            continue
        seen.add(id(o))
        if isinstance(o, dict):
            kids = list(o.keys()) + list(o.values())
        elif isinstance(o, (list, tuple, set, frozenset)):
            kids = list(o)
        else:
            kids = []
            dct = getattr(o, '__dict__', None)
            if isinstance(dct, dict):
                kids += list(dct.values())
                total += len(dct)
            for sl in getattr(type(o), '__slots__', ()) or ():
                if isinstance(sl, str) and hasattr(o, sl):
                    kids.append(getattr(o, sl))
            if isinstance(o, BaseException):
                kids += [o.args, getattr(o, '__notes__', None)]
        total += len(kids)
        for k in kids:
            stack.append((k, d + 1))
    return total


def state_size(env, P):
    """size of the state that outlives an evaluation: bindings, listener lists, parser/lexer attributes, and the
    traceback / context chains hanging off the shared error singletons"""
    err = env.error
    singles = [getattr(err, n) for n in ('ERROR', 'DIV_ZERO', 'NAME', 'NOT_AVAILABLE', 'NULL', 'NUM', 'REF', 'VALUE', 'DATA')]
    tbs = sum(tb_len(x) for x in singles)
    ctx = sum(1 for x in singles if x.__context__ is not None or x.__cause__ is not None)
    plex = sys.modules.get('ply.lex')
    glex = getattr(plex, 'lexer', None)
    return {
        'deep_size_of_error_singletons': sum(deep_size(x) for x in singles),
        'deep_size_of_parser_object': deep_size(P),
        'deep_size_of_module_globals': sum(deep_size(v, 4) for name, m in sorted(sys.modules.items())
                                           if name.startswith('hotxlfp') and m is not None
                                           for v in vars(m).values() if isinstance(v, (dict, list, set))),
        'traceback_frames_on_error_singletons': tbs,
        'error_singletons_with_context': ctx,
        'variables': len(P.variables), 'functions': len(P.functions),
        'listeners': sum(len(v) for v in P._e.values()), 'event_names': len(P._e),
        'names': len(P.parser.names),
        'yacc_stack': len(getattr(P.parser.yacc, 'statestack', []) or []) + len(getattr(P.parser.yacc, 'symstack', []) or []),
        'parser_attrs': len(vars(P)) + len(vars(P.parser)) + len(vars(P.parser.yacc)) + len(vars(P.parser.lex)),
        'global_lexer_data': len(getattr(glex, 'lexdata', '') or '') if glex is not None else 0,
    }


@register
class State(Harness):
    name = 'C02.state'
    prop = 'C02'
    doc = 'a long-lived process retains no memory per evaluation: the state reachable from the parser, the module globals, ' \
          'ply\'s global lexer and the shared error singletons (traceback / context chains) has the same size after 1, 2 and 3 ' \
          'repetitions of an evaluation (induction step k -> k+1), for valid, erroneous and aborted evaluations'
    functions = ('Parser.parse', 'error (module-level XLError singletons)', 'Parser._throw_error', 'utils.inumbers', 'Parser.call_function')
    bounds = '%d formulas, each evaluated 3 times on one parser - the same text, or three texts that differ in trailing blanks ' \
             '(which defeats a cache keyed by the text) - with debug output off and on; measured after each evaluation: a ' \
             'structural size (container slots reachable through attributes, lists, dicts, exception notes and arguments) of ' \
             'the parser, of every hotxlfp module\'s global containers and of the shared error objects, plus their traceback ' \
             'and context chains; variable values symbolic integers' % len(F1)

    def cases(self, tier):
        return [{'i': i, 'debug': d, 'vary': v} for i in range(len(F1)) for d in (0, 1) for v in (0, 1)]

    def build(self, e, p):
        return {'a': e.fresh_int('a', -100, 100), 'b': e.fresh_int('b', -100, 100)}

    def run(self, env, inp, p):
        import io
        import contextlib
        P = env.Parser(debug=bool(p.get('debug')))
        bind(env, P, inp)
        f = F1[p['i']]
        sizes = []
        buf = io.StringIO()
        for k in range(3):
            with contextlib.redirect_stderr(buf), contextlib.redirect_stdout(buf):
                P.parse(f + ' ' * k if p.get('vary') else f)
            sizes.append(state_size(env, P))
        return sizes

    def post(self, env, inp, out, p):
        if isinstance(out, Raised):
            return False
        s1, s2, s3 = out
        keys = [k for k in s1 if k != 'global_lexer_data']
        return all(s1[k] == s2[k] == s3[k] for k in keys)


@register
class HostValues(Harness):
    name = 'C02.hostvalues'
    prop = 'C02'
    doc = 'evaluation never mutates a value supplied by the host: variable values, cell and range values and custom-function ' \
          'arguments bound to lists are unchanged (same objects, same lengths, same elements) after the call'
    functions = ('grammarparser.parser.p_expseq_comma', 'grammarparser.parser.p_variable_seq', 'utils.flatten', 'utils.iflatten',
                 'statistical.LARGE', 'operators.ExcelArrayOps', 'mathtrig.SUMIFS', 'lookupandreference.INDEX')
    bounds = 'host lists of 3 symbolic integers and a nested 2x2 list, bound as a variable, as a range value and passed through ' \
             'to a recording custom function; %d formulas using them' % 14

    FORMULAS = ['SUM(vl)', 'LARGE(vl,1)', 'vl+1', 'vl*vl', 'SUM(vl,vn)', 'INDEX(vn,1,2)', 'REC(vl,vn)', 'MAX(A1:B2)', 'SUMIFS(vl,vl,">0")',
                'MATCH(va,vl,0)', 'AVERAGE(vn)', 'CONCATENATE(vl)', 'SUM({1,2},vl)', 'COUNT(vl,vn,A1:B2)']

    def cases(self, tier):
        return [{'i': i} for i in range(len(self.FORMULAS))]

    def build(self, e, p):
        mk = lambda n: e.fresh_int(n, -50, 50)
        return {'l': [mk('l0'), mk('l1'), mk('l2')], 'n': [[mk('n00'), mk('n01')], [mk('n10'), mk('n11')]], 'a': mk('a')}

    def run(self, env, inp, p):
        P = env.Parser()
        vl = list(inp['l'])
        vn = [list(r) for r in inp['n']]
        rng = [list(r) for r in inp['n']]
        snap = lambda: (list(vl), [list(r) for r in vn], [list(r) for r in rng], [id(r) for r in vn], [id(r) for r in rng])
        before = snap()
        P.set_variable('vl', vl)
        P.set_variable('vn', vn)
        P.set_variable('va', inp['a'])
        seen = []
        P.set_function('REC', lambda *a: (seen.append(a), 0)[1])
        P.on('callRangeValue', lambda a, b, s: s(rng))
        out = P.parse(self.FORMULAS[p['i']])
        after = snap()
        return {'out': out, 'before': before, 'after': after}

    def post(self, env, inp, out, p):
        if isinstance(out, Raised) or not is_record(out['out']):
            return False
        b, a = out['before'], out['after']

        def eq(x, y):
            if isinstance(x, list) and isinstance(y, list):
                return len(x) == len(y) and And(*[eq(u, v) for u, v in zip(x, y)])
            return x is y or same_type_eq(x, y)
        return And(eq(b[0], a[0]), eq(b[1], a[1]), eq(b[2], a[2]), b[3] == a[3], b[4] == a[4])
