"""C08 - error values propagate through operators and can be trapped."""
import z3
from ..harness import Harness, register, Raised
from ..spec import And, Or, Not, Implies, Iff, tb
from ..values import SymInt, SymBool, zint, mkint, mkbool
from .. import engine as E
from .common import ok_result, err_is, is_record, isint, CODES

OPS = ['+', '-', '*', '/', '&', '<', '>', '=', '<=', '>=', '<>']
ERR8 = [c for c in CODES if c != '#ERROR!']
# error-producing leaf kinds: text of the leaf and the error it must produce
SOURCES = {
    'var': None,                 # variable bound to an error value (symbolic among the 8 propagating codes)
    'div0': ('(1/0)', '#DIV/0!'),          # produced by an operator
    'na': ('NA()', '#N/A'),                # function returning an error
    'absx': ('ABS("x")', '#VALUE!'),       # function returning an error for bad input
    'raise': ('SUM(1/0)', '#DIV/0!'),      # function raising the error it meets
    'lit': None,                 # error literal in the text (each spelling)
}
ERROR_TYPE = {'#NULL!': 1, '#DIV/0!': 2, '#VALUE!': 3, '#REF!': 4, '#NAME?': 5, '#NUM!': 6, '#N/A': 7, '#GETTING_DATA': 8}


def leaf(env, e, inp, key, kind, varname, variables):
    """returns (text, expected error code or None)"""
    if kind == 'okarr':
        return '{1,2}', None
    if kind == 'ok':
        if env.symbolic:
            # non-error leaves are non-zero so that a '/' above them cannot itself produce #DIV/0!
            inp[key] = e.fresh_int(key, 1, 99999)
        variables[varname] = inp[key]
        return varname, None
    if kind == 'var9':
        if env.symbolic:
            inp[key] = CODES[e.choose(len(CODES))]
        variables[varname] = env.error_by_code(inp[key])
        return varname, inp[key]
    if kind == 'var':
        if env.symbolic:
            inp[key] = ERR8[e.choose(len(ERR8))]
        variables[varname] = env.error_by_code(inp[key])
        return varname, inp[key]
    if kind == 'lit':
        if env.symbolic:
            inp[key] = CODES[e.choose(len(CODES))]
        return inp[key], inp[key]
    if kind == 'errtext':
        # a TEXT value that merely spells an error code is not an error
        if env.symbolic:
            inp[key] = CODES[e.choose(len(CODES))]
        variables[varname] = str(inp[key])
        return varname, None
    if kind in ('custraise', 'custret', 'custnested'):
        # a host-registered function that raises / returns the error object (also called from inside a built-in's argument)
        if env.symbolic:
            inp[key] = ERR8[e.choose(len(ERR8))]
        err = env.error_by_code(inp[key])
        fname = 'CUST' + varname.upper()

        def cust(*a):
            if kind == 'custret':
                return err
            raise err
        variables.setdefault('__fn__', {})[fname] = cust
        return ('SUM(1,%s())' % fname if kind == 'custnested' else '%s()' % fname), inp[key]
    text, code = SOURCES[kind]
    return text, code


class _Base(Harness):
    prop = 'C08'

    def parse_with(self, env, formula, variables=None, functions=None, debug=False):
        variables = dict(variables or {})
        fns = variables.pop('__fn__', None)
        return Harness.parse_with(self, env, formula, variables, fns, debug)
    functions = ('operators.evaluate_arithmetic', 'operators.evaluate_logic', 'grammarparser.parser.p_expression_arithmetic_operator',
                 'grammarparser.parser.p_expression_logical_operator', 'grammarparser.parser.p_expression_uminus',
                 'grammarparser.parser.p_xlerror', 'Parser.parse', 'Parser.call_function', 'Parser._throw_error',
                 'error.from_message', 'utils.inumbers', 'mathtrig.SUM', 'mathtrig.ABS', 'information.NA')


@register
class Binary(_Base):
    name = 'C08.binary'
    doc = 'a OP b and -a with an error-producing leaf on either or both sides: the result is that error (the left one when both)'
    bounds = '11 binary operators and unary minus; each leaf: a non-error symbolic integer or an error produced as a bound value ' \
             '(any of 8 codes), by an operator (1/0), by a function returning it, by a function raising it, by an error literal (9 spellings), or by a host-registered function that raises or returns it ' \
             '(called directly or inside a built-in\'s argument)'

    def cases(self, tier):
        out = []
        kinds = list(SOURCES)
        for op in OPS:
            for l in kinds + ['ok']:
                for r in kinds + ['ok']:
                    if l == 'ok' and r == 'ok':
                        continue
                    out.append({'op': op, 'l': l, 'r': r})
        for l in kinds:
            out.append({'op': 'neg', 'l': l, 'r': None})
        for op in OPS:
            for k in ('custraise', 'custret', 'custnested'):
                for other in ('ok', 'var', k):
                    out.append({'op': op, 'l': k, 'r': other})
                    if other != k:
                        out.append({'op': op, 'l': other, 'r': k})
        for k in ('custraise', 'custret', 'custnested'):
            out.append({'op': 'neg', 'l': k, 'r': None})
        # the non-error operand is an array: the error still is the result
        for op in OPS:
            for k in ('var', 'div0', 'raise'):
                out.append({'op': op, 'l': 'okarr', 'r': k})
                out.append({'op': op, 'l': k, 'r': 'okarr'})
        return out

    def run(self, env, inp, p):
        e = E.cur() if env.symbolic else None
        vs = {}
        lt, lc = leaf(env, e, inp, 'l', p['l'], 'va', vs)
        if p['op'] == 'neg':
            inp['_want'] = lc
            return self.parse_with(env, '-%s' % lt, vs)
        rt, rc = leaf(env, e, inp, 'r', p['r'], 'vb', vs)
        inp['_want'] = lc if lc is not None else rc
        # an error literal makes the whole formula report it: when the right operand is a literal and the left an error
        # value, the statement allows either reading
        inp['_alt'] = rc if (p['r'] == 'lit' and lc is not None) else None
        return self.parse_with(env, '%s%s%s' % (lt, p['op'], rt), vs)

    def post(self, env, inp, out, p):
        if inp.get('_alt') is not None:
            return Or(err_is(out, inp['_want']), err_is(out, inp['_alt']))
        return err_is(out, inp['_want'])


@register
class Nested(_Base):
    name = 'C08.nested'
    doc = '(a OP1 b) OP2 c, a OP1 (b OP2 c) and -(a OP b) with one or two error leaves: the leftmost error is the result'
    bounds = 'depth 2; operators from {+ - * / & < = <>}; error leaves: bound value (8 codes), 1/0, SUM(1/0); other leaves symbolic integers'

    def cases(self, tier):
        ops = ['+', '-', '*', '/', '&', '<', '=', '<>']
        kinds = ['var', 'div0', 'raise']
        out = []
        for o1 in ops:
            for o2 in ops:
                for shape in ('L', 'R'):
                    for pat in ((1, 0, 0), (0, 1, 0), (0, 0, 1), (1, 0, 1), (0, 1, 1)):
                        for k in kinds:
                            out.append({'o1': o1, 'o2': o2, 'shape': shape, 'pat': list(pat), 'kind': k})
        for o1 in ops:
            for pat in ((1, 0), (0, 1), (1, 1)):
                out.append({'o1': o1, 'o2': None, 'shape': 'neg', 'pat': list(pat) + [0], 'kind': 'var'})
        return out

    def run(self, env, inp, p):
        e = E.cur() if env.symbolic else None
        vs = {}
        texts = []
        want = None
        for i, name in enumerate(('va', 'vb', 'vc')):
            kind = p['kind'] if p['pat'][i] else 'ok'
            t, c = leaf(env, e, inp, 'x%d' % i, kind, name, vs)
            texts.append(t)
            if want is None and c is not None:
                want = c
        inp['_want'] = want
        a, b, c = texts
        if p['shape'] == 'L':
            f = '(%s%s%s)%s%s' % (a, p['o1'], b, p['o2'], c)
        elif p['shape'] == 'R':
            f = '%s%s(%s%s%s)' % (a, p['o1'], b, p['o2'], c)
        else:
            f = '-(%s%s%s)' % (a, p['o1'], b)
        return self.parse_with(env, f, vs)

    def post(self, env, inp, out, p):
        return err_is(out, inp['_want'])


@register
class Trapping(_Base):
    name = 'C08.trapping'
    doc = 'IFERROR / IFNA / ISERROR / ISERR / ISNA / ERROR.TYPE observe every error produced by an operator or a (nested) function call'
    functions = _Base.functions + ('logic.IFERROR', 'logic.IFNA', 'information.ISERROR', 'information.ISERR', 'information.ISNA',
                                   'information.ERROR_TYPE')
    bounds = 'argument: an error leaf of any kind (including a host-registered function raising / returning the error), alone or as ' \
             'either operand of one of {+ * & < =} with a symbolic integer; a non-error integer; a text value that spells an error code (alone, or under & or =)'

    def cases(self, tier):
        out = []
        kinds = ['var9', 'div0', 'na', 'absx', 'raise', 'custraise', 'custret', 'custnested', 'ok']
        for w in (None, '&', '='):
            out.append({'kind': 'errtext', 'wrap': w, 'side': 'l'})
            if w:
                out.append({'kind': 'errtext', 'wrap': w, 'side': 'r'})
        for k in kinds:
            out.append({'kind': k, 'wrap': None})
            if k != 'ok':
                for op in ('+', '*', '&', '<', '='):
                    out.append({'kind': k, 'wrap': op, 'side': 'l'})
                    out.append({'kind': k, 'wrap': op, 'side': 'r'})
                out.append({'kind': k, 'wrap': 'neg'})
        return out

    def run(self, env, inp, p):
        e = E.cur() if env.symbolic else None
        vs = {}
        t, code = leaf(env, e, inp, 'x', p['kind'], 'va', vs)
        if env.symbolic:
            inp['y'] = e.fresh_int('y', -99999, 99999)
            inp['o'] = e.fresh_int('o', 1, 100)
        vs['vy'] = inp['y']
        vs['vo'] = inp['o']
        if p['wrap'] == 'neg':
            x = '-%s' % t
        elif p['wrap']:
            x = '%s%svo' % (t, p['wrap']) if p['side'] == 'l' else 'vo%s%s' % (p['wrap'], t)
        else:
            x = t
        inp['_code'] = code
        fs = ['IFERROR(%s,vy)', 'IFNA(%s,vy)', 'ISERROR(%s)', 'ISERR(%s)', 'ISNA(%s)', 'ERROR.TYPE(%s)']
        return [self.parse_with(env, f % x, vs) for f in fs]

    def post(self, env, inp, out, p):
        if isinstance(out, Raised) or not all(is_record(o) for o in out):
            return False
        code = inp['_code']
        iferror, ifna, iserror, iserr, isna, etype = out
        y = inp['y']
        if code is None and p['kind'] == 'errtext' and not p['wrap']:
            # text spelling an error code is text: nothing is trapped, the text itself comes back, ERROR.TYPE has no error to name
            txt = inp['x']
            return And(ok_result(iserror) and iserror['result'] is False, ok_result(iserr) and iserr['result'] is False,
                       ok_result(isna) and isna['result'] is False, ok_result(iferror) and iferror['result'] == txt,
                       ok_result(ifna) and ifna['result'] == txt, err_is(etype, '#N/A'))
        if code is None:
            # no error: IFERROR returns x itself (not y in general), predicates false
            return And(ok_result(iserror) and iserror['result'] is False, ok_result(iserr) and iserr['result'] is False,
                       ok_result(isna) and isna['result'] is False, ok_result(iferror), ok_result(ifna))
        c1 = And(ok_result(iferror), isint(iferror['result']) and iferror['result'] == y)
        if code == '#N/A':
            c2 = And(ok_result(ifna), isint(ifna['result']) and ifna['result'] == y)
        else:
            c2 = err_is(ifna, code)
        c3 = ok_result(iserror) and iserror['result'] is True
        c4 = ok_result(iserr) and iserr['result'] is (code != '#N/A')
        c5 = ok_result(isna) and isna['result'] is (code == '#N/A')
        c6 = True if code == '#ERROR!' else (ok_result(etype) and etype['result'] == ERROR_TYPE[code])
        return And(c1, c2, c3, c4, c5, c6)
