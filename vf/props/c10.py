"""C10 - reference events deliver canonical coordinates, once, in evaluation order."""
import z3
from ..harness import Harness, register, Raised
from ..spec import And, Or, Not, Implies, tb, same_type_eq
from ..values import SymInt, SymBool, SymStr, zint, mkint, mkbool, cps_of, zcp, mkstr
from .. import engine as E
from .common import ok_result, err_is, is_record, isint, isstr, LETTERS, DIGITS
from .c19 import bij26, upper_cps, str_eq_cps


def make_label(e, name, nl, nd, ca, ra):
    col = e.fresh_str(name + 'c', nl, alphabet=LETTERS)
    row = e.fresh_str(name + 'r', nd, alphabet=DIGITS)
    e.add(row.cps[0] != 48)
    cps = ((36,) if ca else ()) + col.cps + ((36,) if ra else ()) + row.cps
    return SymStr(cps), col, row


def row_value(rowcps):
    v = z3.IntVal(0)
    for c in rowcps:
        v = v * 10 + (zcp(c) - 48)
    return z3.simplify(v)


def _t(z):
    r = mkbool(z3.simplify(z))
    return r is True or (r is not False and bool(r))


def label_denotes(label, row_index, col_index):
    """the label text ($ markers optional, upper-case letters, digits) spells exactly the cell at (row_index, col_index);
    characters may be symbolic: their class is decided by forks"""
    cps = list(cps_of(label))
    i = 0
    n = len(cps)
    if i < n and _t(zcp(cps[i]) == 36):
        i += 1
    letters = []
    while i < n and _t(z3.And(zcp(cps[i]) >= 65, zcp(cps[i]) <= 90)):
        letters.append(cps[i])
        i += 1
    if i < n and _t(zcp(cps[i]) == 36):
        i += 1
    digits = []
    while i < n and _t(z3.And(zcp(cps[i]) >= 48, zcp(cps[i]) <= 57)):
        digits.append(cps[i])
        i += 1
    if i != n or not letters or not digits:
        return False
    return mkbool(z3.simplify(z3.And(bij26(letters) == zint(col_index), row_value(digits) - 1 == zint(row_index))))


class _Sym(Harness):
    prop = 'C10'
    needs_ply = True
    max_decisions = 20000


@register
class CellEvent(_Sym):
    name = 'C10.cell'
    doc = 'a cell reference raises exactly one callCellValue event carrying the upper-cased label, the zero-based row and ' \
          'column it denotes and its absolute markers; the value handed to the setter is the value of the reference'
    functions = ('Parser.call_cell_value', 'helper.cell.extract_label', 'helper.cell.Cell', 'grammarparser.parser.p_cell',
                 'grammarparser.lexer.t_ABSOLUTE_CELL', 'grammarparser.lexer.t_MIXED_CELL', 'grammarparser.lexer.t_RELATIVE_CELL')
    bounds = 'labels $?[A-Za-z]{1,4}$?[1-9][0-9]{0,3} (quick) / {0,6} (thorough), symbolic text lexed symbolically; value a symbolic integer'

    def cases(self, tier):
        rows = (1, 2, 4) if tier == 'quick' else (1, 2, 3, 4, 5, 6, 7)
        return [{'nl': nl, 'nd': nd, 'ca': ca, 'ra': ra} for nl in (1, 2, 3, 4) for nd in rows for ca in (0, 1) for ra in (0, 1)]

    def build(self, e, p):
        label, col, row = make_label(e, 'l', p['nl'], p['nd'], p['ca'], p['ra'])
        return {'label': label, 'col': col, 'row': row, 'v': e.fresh_int('v')}

    def run(self, env, inp, p):
        P = env.Parser()
        events = []

        def on_cell(cell, setter):
            events.append((cell.label, cell.row.index, cell.col.index, cell.row.is_absolute, cell.col.is_absolute, cell.row.label, cell.col.label))
            setter(inp['v'])
        P.on('callCellValue', on_cell)
        out = P.parse(inp['label'])
        return {'out': out, 'events': events}

    def post(self, env, inp, out, p):
        if isinstance(out, Raised) or len(out['events']) != 1:
            return False
        lab, ri, ci, rabs, cabs, rl, cl = out['events'][0]
        colc, rowc = cps_of(inp['col']), cps_of(inp['row'])
        want = ([36] if p['ca'] else []) + upper_cps(colc) + ([36] if p['ra'] else []) + list(rowc)
        o = out['out']
        return And(str_eq_cps(lab, want), isint(ri) and mkbool(z3.simplify(zint(ri) == row_value(rowc) - 1)),
                   isint(ci) and mkbool(zint(ci) == bij26(colc)), same_type_eq(rabs, bool(p['ra'])), same_type_eq(cabs, bool(p['ca'])),
                   ok_result(o), isint(o['result']) and o['result'] == inp['v'])


@register
class RangeEvent(_Sym):
    name = 'C10.range'
    doc = 'a range reference raises one callRangeValue event carrying the top-left and bottom-right cells however the corners ' \
          'were written, each cell\'s label agreeing with its coordinates'
    functions = ('Parser.call_range_value', 'helper.cell.extract_label', 'helper.cell.to_label', 'grammarparser.parser.p_cell')
    bounds = 'both corner labels symbolic: 1..4 letters (thorough 1..6), 1 or 3 digits (thorough up to 7, no leading zero), all $ patterns on ' \
             'either corner; all four corner orders (and shared rows / columns) arise from the symbolic coordinates; the same ' \
             'rectangle referenced twice in one formula (as written and with swapped corners)'

    def cases(self, tier):
        out = []
        widths = [(1, 1), (1, 2), (2, 1), (2, 2), (3, 3), (4, 4), (1, 4), (4, 2)]
        if tier != 'quick':
            widths += [(5, 5), (3, 5), (6, 1)]
        for nl1, nl2 in widths:
            for nd in ((1, 3) if tier == 'quick' else (1, 2, 3, 5, 7)):
                if tier == 'quick' and nd == 3 and (nl1, nl2) in ((1, 2), (2, 1)):
                    continue
                for ca in (0, 1):
                    for ra in (0, 1):
                        out.append({'nl1': nl1, 'nl2': nl2, 'nd': nd, 'ca': ca, 'ra': ra, 'cb': 0, 'rb': 0})
                for cb, rb in ((1, 0), (0, 1), (1, 1)):
                    out.append({'nl1': nl1, 'nl2': nl2, 'nd': nd, 'ca': 0, 'ra': 0, 'cb': cb, 'rb': rb})
        # the same rectangle referenced twice in one formula (as written, and with the corners swapped): two events
        for nl in (1, 2):
            for tw in ('same', 'swapped'):
                out.append({'nl1': nl, 'nl2': nl, 'nd': 1, 'ca': 0, 'ra': 0, 'cb': 0, 'rb': 0, 'twice': tw})
                out.append({'nl1': nl, 'nl2': nl, 'nd': 1, 'ca': 1, 'ra': 0, 'cb': 0, 'rb': 1, 'twice': tw})
        return out

    def build(self, e, p):
        l1, c1, r1 = make_label(e, 'a', p['nl1'], p['nd'], p['ca'], p['ra'])
        l2, c2, r2 = make_label(e, 'b', p['nl2'], p['nd'], p.get('cb', 0), p.get('rb', 0))
        return {'l1': l1, 'l2': l2, 'c1': c1, 'r1': r1, 'c2': c2, 'r2': r2, 'v': e.fresh_int('v')}

    def run(self, env, inp, p):
        P = env.Parser()
        events = []

        def on_range(start, end, setter):
            events.append((start.label, start.row.index, start.col.index, end.label, end.row.index, end.col.index))
            setter([[inp['v'] + 1000 * (len(events) - 1)]])     # every event is answered differently
        P.on('callRangeValue', on_range)
        if p.get('twice'):
            second = (inp['l1'] + ':' + inp['l2']) if p['twice'] == 'same' else (inp['l2'] + ':' + inp['l1'])
            out = P.parse('SUM(' + inp['l1'] + ':' + inp['l2'] + ')+SUM(' + second + ')')
        else:
            out = P.parse(inp['l1'] + ':' + inp['l2'])
        return {'out': out, 'events': events}

    def post(self, env, inp, out, p):
        if isinstance(out, Raised):
            return False
        if p.get('twice'):
            # one event per reference, both describing the same rectangle, each reference evaluating to ITS event's value
            if len(out['events']) != 2:
                return False
            e1, e2 = out['events']
            o = out['out']
            same = And(*[same_type_eq(x, y) for x, y in zip(e1[1:3] + e1[4:6], e2[1:3] + e2[4:6])])
            return And(same, ok_result(o), isint(o['result']) and o['result'] == 2 * inp['v'] + 1000)
        if len(out['events']) != 1:
            return False
        sl, sr, sc, el, er, ec = out['events'][0]
        r1, r2 = row_value(cps_of(inp['r1'])) - 1, row_value(cps_of(inp['r2'])) - 1
        c1, c2 = bij26(cps_of(inp['c1'])), bij26(cps_of(inp['c2']))
        if not all(isint(x) for x in (sr, sc, er, ec)):
            return False
        mn = lambda a, b: z3.If(a <= b, a, b)
        mx = lambda a, b: z3.If(a <= b, b, a)
        coords = mkbool(z3.simplify(z3.And(zint(sr) == mn(r1, r2), zint(er) == mx(r1, r2), zint(sc) == mn(c1, c2), zint(ec) == mx(c1, c2))))
        d1 = label_denotes(sl, sr, sc)
        d2 = label_denotes(el, er, ec)
        # corners written top-left : bottom-right (ties included) are delivered exactly as written, $ markers included
        w1 = ([36] if p['ca'] else []) + upper_cps(cps_of(inp['c1'])) + ([36] if p['ra'] else []) + list(cps_of(inp['r1']))
        w2 = ([36] if p.get('cb') else []) + upper_cps(cps_of(inp['c2'])) + ([36] if p.get('rb') else []) + list(cps_of(inp['r2']))
        in_order = mkbool(z3.simplify(z3.And(r1 <= r2, c1 <= c2)))
        return And(coords, d1, d2, Implies(in_order, And(str_eq_cps(sl, w1), str_eq_cps(el, w2))))


SETTER_TAGS = ['none', 'zero', 'false', 'empty', 'int', 'text']


@register
class Setter(Harness):
    name = 'C10.setter'
    prop = 'C10'
    doc = 'the last value other than None handed to the setter - including 0, FALSE and empty text - becomes the value of the ' \
          'reference; with no listener a cell or range is blank'
    functions = ('Parser.call_cell_value', 'Parser.call_range_value', 'Parser.call_variable', 'Parser.call_function')
    bounds = 'sequences of 0..3 setter values drawn from {None, 0, FALSE, "", symbolic integer, symbolic 1-char text} for each ' \
             'of the four reference kinds'

    def cases(self, tier):
        return [{'kind': k, 'n': n} for k in ('cell', 'range', 'variable', 'function') for n in (0, 1, 2, 3)]

    def run(self, env, inp, p):
        e = E.cur() if env.symbolic else None
        if env.symbolic:
            vals = []
            for i in range(p['n']):
                t = SETTER_TAGS[e.choose(len(SETTER_TAGS))]
                vals.append({'none': None, 'zero': 0, 'false': False, 'empty': ''}.get(t) if t in ('none', 'zero', 'false', 'empty')
                            else (e.fresh_int('s%d' % i) if t == 'int' else e.fresh_str('s%d' % i, 1)))
            inp['vals'] = vals
            inp['listen'] = bool(e.choose(2)) if p['n'] == 0 else True
        P = env.Parser()
        P.set_variable('va', 5)
        P.set_function('G', lambda: 7)
        ev = {'cell': 'callCellValue', 'range': 'callRangeValue', 'variable': 'callVariable', 'function': 'callFunction'}[p['kind']]
        if inp['listen']:
            def listener(*a):
                for v in inp['vals']:
                    a[-1](v)
            P.on(ev, listener)
        f = {'cell': 'B7', 'range': 'A1:B2', 'variable': 'va', 'function': 'G()'}[p['kind']]
        return P.parse(f)

    def post(self, env, inp, out, p):
        if not ok_result(out):
            return False
        base = {'cell': None, 'range': None, 'variable': 5, 'function': 7}[p['kind']]
        want = base
        for v in inp['vals']:
            if v is not None:
                want = v
        return same_type_eq(out['result'], want)


# formula -> expected event log (post-order, left to right, one entry per reference, arguments before their call)
ORDER_CASES = [
    ('A1+B2', ['cell:A1', 'cell:B2']),
    ('SUM(A1,va)', ['cell:A1', 'var:va', 'fn:SUM']),
    ('G(A1:B2)+va', ['range:A1:B2', 'fn:G', 'var:va']),
    ('SUM(G(va),A1)*B2', ['var:va', 'fn:G', 'cell:A1', 'fn:SUM', 'cell:B2']),
    ('IF(va>A1,B2,C3)', ['var:va', 'cell:A1', 'cell:B2', 'cell:C3', 'fn:IF']),
    ('A1:A2', ['range:A1:A2']),
    ('-A1&va', ['cell:A1', 'var:va']),
    ('SUM({A1,B2},va)', ['cell:A1', 'cell:B2', 'var:va', 'fn:SUM']),
    ('G(G(A1))', ['cell:A1', 'fn:G', 'fn:G']),
    ('A1+A1', ['cell:A1', 'cell:A1']),
    ('SUM(A1:B2)/COUNT(A1:B2)', ['range:A1:B2', 'fn:SUM', 'range:A1:B2', 'fn:COUNT']),
    ('G(C3:C3)+G(C3:C3)', ['range:C3:C3', 'fn:G', 'range:C3:C3', 'fn:G']),
    ('A1+B2*C3', ['cell:A1', 'cell:B2', 'cell:C3']),
    ('IF(A1>0,A1,A1)', ['cell:A1', 'cell:A1', 'cell:A1', 'fn:IF']),
    ('va+va*va', ['var:va', 'var:va', 'var:va']),
    ('G(1)+G(1)', ['fn:G', 'fn:G']),
    ('SUM(MAX(A1,B2),MIN(A1,B2))', ['cell:A1', 'cell:B2', 'fn:MAX', 'cell:A1', 'cell:B2', 'fn:MIN', 'fn:SUM']),
    ('{A1,A1;B2,A1}', ['cell:A1', 'cell:A1', 'cell:B2', 'cell:A1']),
]


@register
class EventOrder(Harness):
    name = 'C10.order'
    prop = 'C10'
    doc = 'each cell, range, variable and call in a formula raises exactly one event, in left-to-right evaluation order with ' \
          'arguments before their call'
    functions = ('Parser.call_function', 'Parser.call_variable', 'Parser.call_cell_value', 'Parser.call_range_value',
                 'tinyemitter.Emitter.emit', 'grammarparser.parser (reduction order of ply.yacc)')
    bounds = '%d formula shapes mixing the four reference kinds to depth 2 (enumerated); cell / variable values symbolic integers' % len(ORDER_CASES)

    def cases(self, tier):
        return [{'i': i} for i in range(len(ORDER_CASES))]

    def build(self, e, p):
        return {'x': e.fresh_int('x', -100, 100), 'y': e.fresh_int('y', -100, 100)}

    def run(self, env, inp, p):
        P = env.Parser()
        log = []
        P.set_variable('va', inp['x'])
        P.set_function('G', lambda *a: inp['y'])
        P.on('callCellValue', lambda cell, s: (log.append('cell:' + cell.label), s(inp['y'])))
        P.on('callRangeValue', lambda a, b, s: (log.append('range:%s:%s' % (a.label, b.label)), s([inp['x'], inp['y']])))
        P.on('callVariable', lambda name, s: log.append('var:' + name))
        P.on('callFunction', lambda name, args, s: log.append('fn:' + name))
        out = P.parse(ORDER_CASES[p['i']][0])
        return {'out': out, 'log': log}

    def post(self, env, inp, out, p):
        if isinstance(out, Raised) or not is_record(out['out']):
            return False
        return out['log'] == ORDER_CASES[p['i']][1]
