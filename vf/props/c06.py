"""C06 - arithmetic and concatenation follow the implicit type-conversion table."""
import datetime
import z3
from ..harness import Harness, register, Raised
from ..spec import And, Or, Not, Implies, Iff, tb, same_type_eq
from ..values import (SymInt, SymBool, SymFloat, SymStr, zint, mkint, mkbool, zbool, cps_of, zcp, float_binop,
                      _floatval_nofork, is_floatlike)
from .. import engine as E
from .. import models
from . import pool
from .pool import is_date, is_text, is_logical, is_number
from .common import ok_result, err_is, is_record, isint, numtext, DIGITS, LETTERS
from ..dates import SymDateTime, as_sym_dt

TAGS = ('int', 'float', 'bool', 'blank', 'numtext', 'negnumtext', 'dectext', 'text', 'date', 'datetime')
NUMFORMS = ('exptext', 'negexptext', 'padtext', 'plustext', 'longtext', 'dec2text', 'dotlead', 'dottrail')
ARITH = ('+', '-', '*', '/')
PLAIN_LETTERS = [(ord(c), ord(c)) for c in 'bcdghjklmopqrsuvwxzBCDGHJKLMOPQRSUVWXZ']
PYOP = {'+': lambda a, b: a + b, '-': lambda a, b: a - b, '*': lambda a, b: a * b, '/': lambda a, b: a / b}


def make(e, tag, name):
    if tag == 'int':
        return e.fresh_int(name, -3000000, 3000000)
    if tag == 'float':
        return e.fresh_real(name, -3000000, 3000000)
    if tag in ('numtext', 'negnumtext'):
        t, _ = numtext(e, name, 2, sign='-' if tag == 'negnumtext' else None)
        return t
    if tag == 'dectext':
        a = e.fresh_str(name + 'i', 1, alphabet=DIGITS)
        b = e.fresh_str(name + 'f', 1, alphabet=DIGITS)
        return SymStr(a.cps + (46,) + b.cps)
    if tag in NUMFORMS:
        d = lambda k, n=1: e.fresh_str(name + k, n, alphabet=DIGITS).cps
        lit = lambda t: tuple(ord(c) for c in t)
        if tag == 'exptext':
            return SymStr(d('m') + lit('e') + d('x'))
        if tag == 'negexptext':
            return SymStr(d('m') + lit('.') + d('f') + lit('E-') + d('x'))
        if tag == 'padtext':
            return SymStr(lit(' ') + d('m', 2) + lit(' '))
        if tag == 'plustext':
            return SymStr(lit('+') + d('m', 2))
        if tag == 'longtext':
            return SymStr(d('m', 6))
        if tag == 'dec2text':
            return SymStr(lit('-') + d('m', 2) + lit('.') + d('f', 2))
        if tag == 'dotlead':
            return SymStr(lit('.') + d('f'))
        if tag == 'dottrail':
            return SymStr(d('m') + lit('.'))
    if tag == 'text':
        # letters that float() gives no meaning to (no e / inf / nan / infinity spellings)
        return e.fresh_str(name, 2, alphabet=PLAIN_LETTERS)
    return pool.make(e, tag, name)


def to_num(env, v):
    """the number a numeric text spells (int if integer text else float), or None"""
    if env.symbolic:
        try:
            return models.m_int(v)
        except ValueError:
            try:
                return models.m_float(v)
            except ValueError:
                return None
    try:
        return int(v)
    except ValueError:
        try:
            return float(v)
        except ValueError:
            return None


def numeric_value(env, v):
    """('num', value) | ('date', datetime) | ('bad', None) -- the operand's meaning per the statement"""
    if v is None:
        return 'num', 0
    if is_logical(v):
        return 'num', (mkint(zint(v)) if isinstance(v, SymBool) else int(v))
    if is_number(v):
        return 'num', v
    if is_date(v):
        return 'date', v
    if is_text(v):
        n = to_num(env, v)
        if n is not None:
            return 'num', n
        # text spelling a date (dateutil decides; on the symbolic side the stub's recorded decision)
        if env.symbolic:
            for s, d in getattr(E.cur(), 'dateutil_log', []):
                if s is v:
                    return ('date', d) if d is not None else ('bad', None)
            return 'bad?', None
        from dateutil.parser import parse
        try:
            return 'date', parse(v)
        except (ValueError, OverflowError):
            return 'bad', None
    return 'bad', None


@register
class Scalars(Harness):
    name = 'C06.scalars'
    prop = 'C06'
    doc = 'a OP b for OP in + - * / on every pair of scalar type tags equals the arithmetic on the operands\' numeric values ' \
          '(dates through the serial conversion), is a date for date+-number and number+date, #NUM! for a date before 1900, ' \
          '#VALUE! for non-numeric non-date text, #DIV/0! for a zero divisor; + and * commute'
    functions = ('operators.evaluate_arithmetic', 'operators.value_and_type', 'operators.IMPLICIT_DATA_TYPE_CONVERSIONS',
                 'helper.number.to_number', 'utils.serialize_date', 'utils.parse_date',
                 'grammarparser.parser.p_expression_arithmetic_operator')
    bounds = 'ints and floats |x| <= 3e6, logicals, blank, numeric text (2 digits, optional minus, or d.d), free text of 2 letters, ' \
             'whole-day dates and ms date-times 1900-03-01..9999-12-31; date-typed results asserted when the serial stays in 0..2958465'
    outside = ('which result type the table gives for date*number, date/number, number-date, date with blank (only the value is checked there)',
               'text that dateutil reads as a date before 1900-03-01')
    stubs = ('dateutil.parser.parse on symbolic text forks into some date-time / ValueError',
             'float arithmetic on operands: IEEE op as uninterpreted function with error bound (the oracle applies the same op)')
    case_timeout_s = {'quick': 200, 'thorough': 1500}

    def cases(self, tier):
        heavy = ('datetime',)
        out = []
        for a in TAGS:
            for b in TAGS:
                if tier == 'quick' and (a in heavy and b in heavy):
                    continue
                if tier == 'quick' and (a in ('negnumtext', 'dectext') or b in ('negnumtext', 'dectext')) and (a in ('text', 'datetime') or b in ('text', 'datetime')):
                    continue
                for op in ARITH:
                    # products / quotients of two symbolic quantities where one is a (text-spelled) date serial are
                    # non-linear real arithmetic: thorough tier only
                    if tier == 'quick' and op in '*/' and (a in ('text', 'datetime') or b in ('text', 'datetime')) \
                            and not (a in ('blank',) or b in ('blank',)):
                        continue
                    if tier == 'quick' and op in '*/' and {a, b} == {'date', 'dectext'}:
                        continue
                    out.append({'ta': a, 'tb': b, 'op': op})
        return out

    def build(self, e, p):
        return {'a': make(e, p['ta'], 'a'), 'b': make(e, p['tb'], 'b')}

    def run(self, env, inp, p):
        vs = {'va': inp['a'], 'vb': inp['b']}
        out = [self.parse_with(env, 'va%svb' % p['op'], vs)]
        if p['op'] in '+*':
            out.append(self.parse_with(env, 'vb%sva' % p['op'], vs))
        return out

    def post(self, env, inp, out, p):
        if isinstance(out, Raised) or not all(is_record(o) for o in out):
            return False
        ut = env.mod('formulas.utils')
        a, b, op = inp['a'], inp['b'], p['op']
        ka, na = numeric_value(env, a)
        kb, nb = numeric_value(env, b)
        res = out[0]
        if 'bad?' in (ka, kb):
            return True      # text never reached the date parser on this path (the other operand failed first)
        if ka == 'bad' or kb == 'bad':
            return And(*[err_is(o, '#VALUE!') for o in out])
        # serial of date operands through the same conversion the operators use (C13 decides what that conversion is)
        xa = ut.serialize_date(na) if ka == 'date' else na
        xb = ut.serialize_date(nb) if kb == 'date' else nb
        if ka == 'date' and not self._in_range(na):
            return True
        if kb == 'date' and not self._in_range(nb):
            return True
        if op == '/':
            zero = (xb == 0)
            if zero is True or (not isinstance(zero, bool) and bool(zero)):
                return err_is(res, '#DIV/0!')
        # "dates act as their serial": the serial the operators use is the Excel 1900 serial (exact for whole days,
        # within 1e-8 days with a time part)
        serial_cl = []
        for kind, dval, sval in ((ka, na, xa), (kb, nb, xb)):
            if kind == 'date':
                ex = pool.serial_real(dval)
                sr = _floatval_nofork(sval)
                tol = z3.RealVal('1/100000000')
                serial_cl.append(mkbool(z3.simplify(z3.And(sr - ex <= tol, ex - sr <= tol))))
        want = PYOP[op](xa, xb)
        must_date = (ka == 'date' and kb == 'num' and op in '+-' and b is not None) or (ka == 'num' and kb == 'date' and op == '+' and a is not None)
        clauses = list(serial_cl)
        for o in out:
            clauses.append(self._value_ok(env, ut, o, want, must_date))
        if len(out) == 2:
            clauses.append(self._same(out[0], out[1]))
        return And(*clauses)

    def _in_range(self, d):
        dd = as_sym_dt(d)
        r = mkbool(z3.simplify(dd.ord >= pool.ORD_1900_03_01))
        return r is True or (not isinstance(r, bool) and bool(r))

    def _value_ok(self, env, ut, o, want, must_date):
        r = o['result']
        neg = want < 0
        if o['error'] is not None:
            # #NUM! exactly when a date-typed result would precede 1900; a date beyond 9999-12-31 is outside the statement
            return Or(And(o['error'] == '#NUM!', neg), want > 2958465)
        if is_date(r):
            inside = And(want >= 0, want <= 2958465)
            exp = ut.parse_date(want) if (inside is True or (not isinstance(inside, bool) and bool(inside))) else None
            if exp is None:
                return True
            return And(Not(neg), is_date(exp) and (r == exp))
        if must_date:
            return False
        if isinstance(r, (bool, SymBool)) or not is_number(r):
            return False
        return r == want

    def _same(self, o1, o2):
        if o1['error'] is not None or o2['error'] is not None:
            return o1['error'] == o2['error']
        r1, r2 = o1['result'], o2['result']
        if is_date(r1) != is_date(r2):
            return True     # which side keeps the date type in a*b is not fixed by the statement; values are checked above
        return r1 == r2


@register
class NumericTexts(Scalars):
    name = 'C06.numtexts'
    doc = 'text spelling a number in any of the spellings the conversion accepts acts as that number: exponent forms, a plus ' \
          'sign, surrounding blanks, long digit strings, two decimals, a leading or a trailing decimal point'
    bounds = 'texts d e d, d.d E- d, blank dd blank, +dd, dddddd, -dd.dd, .d, d. (digits symbolic) against an integer, a float, a ' \
             'logical, blank and a two-digit numeric text, either side, + - * /'
    outside = ('exponents of two or more digits', 'digit strings longer than 6')

    def cases(self, tier):
        partners = ('int', 'float', 'bool', 'blank', 'numtext')
        out = []
        for f in NUMFORMS:
            for q in partners:
                for op in ARITH:
                    if tier == 'quick' and q in ('float', 'bool') and op in '-/':
                        continue
                    out.append({'ta': f, 'tb': q, 'op': op})
                    if op in '-/':
                        out.append({'ta': q, 'tb': f, 'op': op})
        return out


@register
class Arrays(Harness):
    name = 'C06.arrays'
    prop = 'C06'
    doc = 'arrays combine element-wise with scalars and with arrays of equal length; #VALUE! on a length mismatch'
    functions = ('operators.ExcelArrayOps', 'operators.evaluate_arithmetic')
    bounds = 'flat arrays of 1..3 symbolic integers (and a nested 2x2 array) against a symbolic integer scalar or an array of 1..3; 4 operators; both orders'

    def cases(self, tier):
        out = []
        for op in ARITH:
            for n in (1, 2, 3):
                out.append({'op': op, 'n': n, 'm': 0, 'order': 'as'})
                out.append({'op': op, 'n': n, 'm': 0, 'order': 'sa'})
                for m in (1, 2, 3):
                    out.append({'op': op, 'n': n, 'm': m, 'order': 'aa'})
            out.append({'op': op, 'n': -2, 'm': 0, 'order': 'as'})
        return out

    def build(self, e, p):
        mk = lambda nm: e.fresh_int(nm, -1000, 1000)
        if p['n'] == -2:
            arr = [[mk('a00'), mk('a01')], [mk('a10'), mk('a11')]]
        else:
            arr = [mk('a%d' % i) for i in range(p['n'])]
        other = [mk('b%d' % i) for i in range(p['m'])] if p['m'] else mk('s')
        return {'arr': arr, 'other': other}

    def run(self, env, inp, p):
        vs = {'va': inp['arr'], 'vb': inp['other']}
        f = 'vb%sva' % p['op'] if p['order'] == 'sa' else 'va%svb' % p['op']
        return self.parse_with(env, f, vs)

    def _elem(self, op, x, y, r):
        if op == '/':
            z = (y == 0)
            if z is True or (not isinstance(z, bool) and bool(z)):
                return r is not None and type(r).__name__ == 'XLError' and str(r) == '#DIV/0!'
        if isinstance(r, (bool, SymBool)) or not is_number(r):
            return False
        return r == PYOP[op](x, y)

    def post(self, env, inp, out, p):
        if not is_record(out):
            return False
        arr, other, op = inp['arr'], inp['other'], p['op']
        if p['order'] == 'aa':
            n, m = p['n'], p['m']
            if n != m and m != 1 and n != 1:
                return err_is(out, '#VALUE!')
            if n != m:
                # a one-element array acts as a scalar
                if m == 1:
                    pairs = [(x, other[0]) for x in arr]
                else:
                    return True   # one-element left array against a longer one: not fixed by the statement
            else:
                pairs = list(zip(arr, other))
        elif p['order'] == 'as':
            if p['n'] == -2:
                r = out['result']
                if out['error'] is not None or not isinstance(r, list) or len(r) != 2:
                    return False
                return And(*[isinstance(row, list) and len(row) == 2 and And(*[self._elem(op, x, other, rr) for x, rr in zip(arow, row)])
                             for arow, row in zip(arr, r)])
            pairs = [(x, other) for x in arr]
        else:
            pairs = [(other, x) for x in arr]
        r = out['result']
        if out['error'] is not None or not isinstance(r, list) or len(r) != len(pairs):
            return False
        return And(*[self._elem(op, x, y, rr) for (x, y), rr in zip(pairs, r)])


@register
class Concat(Harness):
    name = 'C06.concat'
    prop = 'C06'
    doc = '& joins its operands as text: text verbatim, integers as their digits, blank as nothing'
    functions = ('grammarparser.parser.p_expression_arithmetic_operator',)
    bounds = 'operands: text of length 0..2 over all code points, any integer |n| < 10^6 (all pairs) and |n| <= 10^17 (beside a text of length 0..1 or a blank), blank'

    def cases(self, tier):
        tags = ['text0', 'text1', 'text2', 'int', 'bigint', 'blank']
        return [{'ta': a, 'tb': b} for a in tags for b in tags if 'bigint' not in (a, b) or (a if b == 'bigint' else b) in ('text0', 'text1', 'blank')]

    def _mk(self, e, tag, name):
        if tag.startswith('text'):
            n = int(tag[4:])
            return e.fresh_str(name, n) if n else ''
        if tag == 'int':
            return e.fresh_int(name, -999999, 999999)
        if tag == 'bigint':
            return e.fresh_int(name, -(10 ** 17), 10 ** 17)
        return None

    def build(self, e, p):
        return {'a': self._mk(e, p['ta'], 'a'), 'b': self._mk(e, p['tb'], 'b')}

    def run(self, env, inp, p):
        return self.parse_with(env, 'va&vb', {'va': inp['a'], 'vb': inp['b']})

    def _txt(self, env, v):
        if v is None:
            return ''
        if is_text(v):
            return v
        return models.m_str(v) if env.symbolic else str(v)

    def post(self, env, inp, out, p):
        if not ok_result(out):
            return False
        want = self._txt(env, inp['a']) + self._txt(env, inp['b'])
        r = out['result']
        if not is_text(r):
            return False
        return r == want
