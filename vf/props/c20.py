"""C20 - event emitter: ordered delivery, exact unsubscription, once means once.

One inductive step: an arbitrary pre-state (<=3 listeners on name A, <=1 on name B, each plain or once,
callback identities SYMBOLIC integers from a pool of 3, symbolic context values) is built directly, then one
operation with symbolic callback identity / arguments is applied; callbacks invoked by emit may themselves
perform one operation (re-entrancy depth 1).  Post-state and call log must equal those of a reference
model written from the property statement.  Every post-state is again a state of this shape, so the step
covers histories of any length over states within the size bound.
"""
import z3
from ..harness import Harness, register, Raised
from ..spec import And, Or, Not, tb
from ..values import SymInt, SymBool, zint, mkbool, mkint
from .. import engine as E


class Cb(object):
    """A callback whose identity is a (possibly symbolic) integer; == compares identities."""
    __slots__ = ('ident', 'world')

    def __init__(self, ident, world):
        self.ident = ident
        self.world = world

    def __eq__(self, o):
        if isinstance(o, Cb):
            r = (self.ident == o.ident)
            return r
        return False

    def __ne__(self, o):
        if isinstance(o, Cb):
            r = (self.ident != o.ident)
            return r
        return True

    __hash__ = None

    def __call__(self, *args, **ctx):
        w = self.world
        w.log.append((self.ident, tuple(args), tuple(sorted(ctx.items()))))
        w.maybe_act(self.ident)


class World(object):
    """Shared between the real emitter run and the reference run: the log and the re-entrant behaviour.
    actors: list of [identity, [operations], acted]; a callback whose identity equals an actor's performs that actor's
    operations (once) when it is invoked -- also from inside a nested emit (re-entrancy to the depth of the actor list)."""
    def __init__(self, emitter_ops, actors):
        self.log = []
        self.ops = emitter_ops      # object with on/once/off/emit
        self.actors = [[a, list(ops), False] for a, ops in actors]

    def maybe_act(self, ident):
        for act in self.actors:
            if act[2]:
                continue
            same = (ident == act[0])
            if same:
                act[2] = True
                for op in act[1]:
                    apply_op(self.ops, op, self)


def apply_op(em, op, world):
    kind, name, ident, arg = op
    if kind == 'on':
        em.on(name, Cb(ident, world), {'k': arg})
    elif kind == 'on_noctx':
        em.on(name, Cb(ident, world))
    elif kind == 'once':
        em.once(name, Cb(ident, world), {'k': arg})
    elif kind == 'off':
        em.off(name)
    elif kind == 'offcb':
        em.off(name, Cb(ident, world))
    elif kind == 'emit':
        em.emit(name, arg)
    elif kind == 'emit2':
        em.emit(name, arg, arg)


class RefEmitter(object):
    """Reference model from the statement."""
    def __init__(self):
        self.e = {}

    def on(self, name, cb, ctx=None):
        # the bound context is the object the subscriber passed (by reference: what it holds at delivery time counts)
        self.e.setdefault(name, []).append({'cb': cb, 'once': False, 'ctx': ctx if ctx is not None else {}, 'fired': False})
        return self

    def once(self, name, cb, ctx=None):
        self.e.setdefault(name, []).append({'cb': cb, 'once': True, 'ctx': ctx if ctx is not None else {}, 'fired': False})
        return self

    def off(self, name, cb=None):
        if cb is None:
            self.e.pop(name, None)
            return self
        keep = []
        for ent in self.e.get(name, []):
            if ent['cb'] != cb:       # symbolic identities: forks through the engine
                keep.append(ent)
        if keep:
            self.e[name] = keep
        else:
            self.e.pop(name, None)
        return self

    def emit(self, name, *args):
        snapshot = list(self.e.get(name, []))
        for ent in snapshot:
            if ent['once']:
                if ent['fired']:
                    continue
                ent['fired'] = True
                lst = self.e.get(name, [])
                if any(x is ent for x in lst):
                    lst2 = [x for x in lst if x is not ent]
                    if lst2:
                        self.e[name] = lst2
                    else:
                        self.e.pop(name, None)
            ent['cb'](*args, **ent['ctx'])
        return self

    def state(self):
        return {n: [(x['cb'].ident, x['once'], tuple(sorted(x['ctx'].items()))) for x in l] for n, l in self.e.items() if l}


def real_state(em):
    out = {}
    for n, l in em._e.items():
        if not l:
            continue
        ents = []
        for lis in l:
            fn = lis.fn
            once = hasattr(fn, '_')
            cb = fn._ if once else fn
            ents.append((cb.ident, once, tuple(sorted(lis.ctx.items()))))
        out[n] = ents
    return out


def _eqv(a, b):
    """deep equality of log/state structures whose leaves may be symbolic"""
    if isinstance(a, (tuple, list)) and isinstance(b, (tuple, list)):
        if len(a) != len(b):
            return False
        return And(*[_eqv(x, y) for x, y in zip(a, b)])
    if isinstance(a, dict) and isinstance(b, dict):
        if set(a) != set(b):
            return False
        return And(*[_eqv(a[k], b[k]) for k in a])
    r = (a == b)
    if r is NotImplemented:
        return False
    return r


SHAPES_A = [[]] + [[k1] for k1 in 'po'] + [[k1, k2] for k1 in 'po' for k2 in 'po'] + \
           [[k1, k2, k3] for k1 in 'po' for k2 in 'po' for k3 in 'po']
SHAPES_B = [[], ['p'], ['o']]
OPS = ['on', 'on_noctx', 'once', 'off', 'offcb', 'emit', 'emit2']
ACTIONS = [None, 'on', 'once', 'off', 'offcb', 'emit']


@register
class EmitterStep(Harness):
    name = 'C20.step'
    prop = 'C20'
    doc = 'one operation (with one re-entrant operation inside callbacks) from an arbitrary emitter state equals the reference model'
    functions = ('tinyemitter.Emitter.on', 'tinyemitter.Emitter.once', 'tinyemitter.Emitter.off', 'tinyemitter.Emitter.emit')
    bounds = 'two event names; <=3 listeners on the first, <=1 on the second (thorough: <=4 and <=2); callback identities symbolic in a pool of 3; ' \
             'contexts {k: symbolic int}; one operation with one re-entrant operation by one acting callback; plus, on selected shapes, a callback performing ' \
             'two operations during delivery and two acting callbacks (re-entrancy two levels deep); contexts registered empty and ' \
             'filled by the host after subscription (the listener is bound to the object, not to a copy)'
    outside = ('listener lists longer than 3', 'callbacks raising exceptions', 'nesting deeper than 1')

    def cases(self, tier):
        out = []
        shapes_a, shapes_b = SHAPES_A, SHAPES_B
        if tier == 'thorough':
            import itertools
            shapes_a = SHAPES_A + [list(t) for t in itertools.product('po', repeat=4)]
            shapes_b = SHAPES_B + [[k1, k2] for k1 in 'po' for k2 in 'po']
        for ia, sa in enumerate(shapes_a):
            for ib, sb in enumerate(shapes_b):
                if tier == 'quick' and ib and len(sa) == 3:
                    continue
                out.append({'a': ''.join(sa), 'b': ''.join(sb), 'mode': 'one'})
        # a callback performing TWO operations during delivery, and two acting callbacks (re-entrancy two levels deep)
        deep_shapes = [('p', 'p'), ('pp', 'p'), ('po', 'p'), ('pp', ''), ('op', 'o')]
        if tier == 'thorough':
            deep_shapes += [('ppp', 'p'), ('pop', 'o'), ('pp', 'pp'), ('ooo', 'p')]
        for a, b in deep_shapes:
            out.append({'a': a, 'b': b, 'mode': 'two_ops'})
            out.append({'a': a, 'b': b, 'mode': 'two_actors'})
        # contexts registered EMPTY and filled by the host after subscription: the listener is bound to that object
        for a, b in (('p', ''), ('o', ''), ('po', ''), ('pp', 'o'), ('op', 'p')):
            out.append({'a': a, 'b': b, 'mode': 'one', 'late': 1})
        return out

    def build(self, e, p):
        ids = [e.fresh_int('id%d' % i, 0, 2) for i in range(len(p['a']) + len(p['b']))]
        ctxs = [e.fresh_int('ctx%d' % i, 0, 3) for i in range(len(p['a']) + len(p['b']))]
        return {'ids': ids, 'ctxs': ctxs, 'opcb': e.fresh_int('opcb', 0, 2), 'arg': e.fresh_int('arg'),
                'actor': e.fresh_int('actor', 0, 2), 'actcb': e.fresh_int('actcb', 0, 2), 'actarg': e.fresh_int('actarg'),
                'actor2': e.fresh_int('actor2', 0, 2), 'actcb2': e.fresh_int('actcb2', 0, 2),
                'opk': None, 'opname': None, 'acts': None}

    def _choices(self, env, inp, p):
        # structural choices are forks (symbolic side) or recorded values (replay side)
        if env.symbolic:
            e = E.cur()
            mode = p.get('mode', 'one')
            if mode == 'one':
                inp['opk'] = OPS[e.choose(len(OPS))]
                inp['opname'] = 'AB'[e.choose(2)]
                k = ACTIONS[e.choose(len(ACTIONS))]
                inp['acts'] = [[[k, 'AB'[e.choose(2)] if k else 'A']]] if k else []
            else:
                # the outer operation is an emit; the acting callbacks' operations are chosen among the re-entrant ones
                inp['opk'] = 'emit'
                inp['opname'] = 'AB'[e.choose(2)]
                pick = lambda: [ACTIONS[1 + e.choose(len(ACTIONS) - 1)], 'AB'[e.choose(2)]]
                if mode == 'two_ops':
                    inp['acts'] = [[pick(), pick()]]
                else:
                    inp['acts'] = [[pick()], [pick()]]
        return inp['opk'], inp['opname'], inp['acts']

    def run(self, env, inp, p):
        opk, opname, acts = self._choices(env, inp, p)
        Emitter = env.mod('tinyemitter').Emitter
        outs = []
        for real in (True, False):
            em = Emitter() if real else RefEmitter()
            actors = []
            idents = [inp['actor'], inp['actor2']]
            cbs = [inp['actcb'], inp['actcb2']]
            for i, oplist in enumerate(acts):
                actors.append((idents[i], [(k, nm, cbs[i], inp['actarg']) for k, nm in oplist]))
            world = World(em, actors)
            k = 0
            for name, shape in (('A', p['a']), ('B', p['b'])):
                for kind in shape:
                    cb = Cb(inp['ids'][k], world)
                    if p.get('late'):
                        ctx = {}
                        (em.on if kind == 'p' else em.once)(name, cb, ctx)
                        ctx['k'] = inp['ctxs'][k]
                    else:
                        ctx = {'k': inp['ctxs'][k]}
                        (em.on if kind == 'p' else em.once)(name, cb, ctx)
                    k += 1
            apply_op(em, (opk, opname, inp['opcb'], inp['arg']), world)
            outs.append((world.log, real_state(em) if real else em.state()))
        return outs

    def post(self, env, inp, out, p):
        if isinstance(out, Raised):
            return False
        (rlog, rstate), (mlog, mstate) = out
        return And(_eqv(rlog, mlog), _eqv(rstate, mstate))
