"""C12 - logical functions are truth-functional; type predicates classify values."""
import z3
from ..harness import Harness, register, Raised
from ..spec import And, Or, Not, Implies, Iff, Xor, tb, same_type_eq
from ..values import SymInt, SymBool, SymFloat, SymStr, zint, mkint, mkbool, zbool
from .. import engine as E
from .common import operand, ok_result, err_is, any_error, isint, isnum, isstr, isbool, is_record, CODES, LETTERS

TRUTH_TAGS = ['bool', 'int', 'float', 'blank']
ERR8 = [c for c in CODES if c != '#ERROR!']


def truth(v):
    """truth value per the statement: TRUE / non-zero numbers true; FALSE, zero, blank false"""
    if v is None:
        return False
    if isinstance(v, (bool, SymBool)):
        return v
    return v != 0


def pick_tagged(env, e, inp, key, tags, name):
    """structural choice of an operand tag: a fork on the symbolic side, recorded for the replay side"""
    if env.symbolic:
        tag = tags[e.choose(len(tags))]
        if tag in CODES:
            val = env.error_by_code(tag)
        else:
            val, _ = operand(e, tag, name)
        inp[key] = {'tag': tag, 'val': val}
    else:
        tag = inp[key]['tag']
        val = inp[key]['val']
    return tag, val


@register
class Connectives(Harness):
    name = 'C12.connectives'
    prop = 'C12'
    doc = 'AND / OR / XOR over k arguments (flat, the first two inside an array literal, or nested three arrays deep) of logicals, integers, ' \
          'floats and blanks = conjunction / disjunction / parity of truth values; an error argument yields an error'
    functions = ('logic.AND', 'logic.OR', 'logic.XOR', 'utils.iflatten', 'grammarparser.parser.p_array')
    bounds = 'k <= 3 arguments (quick) / 6 (thorough); every tag combination; integer and float values unbounded; one ' \
             'argument may be any of the 8 error values'

    def cases(self, tier):
        ks = (1, 2, 3) if tier == 'quick' else (1, 2, 3, 4, 5, 6)
        out = []
        for fn in ('AND', 'OR', 'XOR'):
            for k in ks:
                out.append({'fn': fn, 'k': k, 'nested': False, 'err': -1})
                if k >= 2:
                    out.append({'fn': fn, 'k': k, 'nested': True, 'err': -1})
                if k >= 3:
                    out.append({'fn': fn, 'k': k, 'nested': 'deep', 'err': -1})
                    out.append({'fn': fn, 'k': k, 'nested': 'deep', 'err': k - 1})
                for ep in range(k):
                    out.append({'fn': fn, 'k': k, 'nested': k >= 2 and ep % 2 == 1, 'err': ep})
        return out

    def build(self, e, p):
        return {}

    def formula(self, p):
        names = ['v%s' % 'abcdef'[i] for i in range(p['k'])]
        if p['nested'] == 'deep':
            # arrays nested three deep: {a,{b,{c}}}
            return '%s({%s,{%s,{%s}}}%s)' % (p['fn'], names[0], names[1], names[2], ''.join(',' + n for n in names[3:]))
        if p['nested']:
            return '%s({%s,%s}%s)' % (p['fn'], names[0], names[1], ''.join(',' + n for n in names[2:]))
        return '%s(%s)' % (p['fn'], ','.join(names))

    def run(self, env, inp, p):
        e = E.cur() if env.symbolic else None
        vals = {}
        for i in range(p['k']):
            tags = ERR8 if i == p['err'] else TRUTH_TAGS
            tag, v = pick_tagged(env, e, inp, 'a%d' % i, tags, 'x%d' % i)
            vals['v%s' % 'abcdef'[i]] = v
        return self.parse_with(env, self.formula(p), vals)

    def post(self, env, inp, out, p):
        if not is_record(out):
            return False
        vals = [inp['a%d' % i]['val'] for i in range(p['k'])]
        if p['err'] >= 0:
            return err_is(out, inp['a%d' % p['err']]['tag'])
        if out['error'] is not None:
            return False
        r = out['result']
        if not isbool(r):
            return False
        ts = [truth(v) for v in vals]
        if p['fn'] == 'AND':
            want = And(*ts)
        elif p['fn'] == 'OR':
            want = Or(*ts)
        else:
            want = False
            for t in ts:
                want = Xor(want, t)
        return Iff(r, want)


@register
class NotIf(Harness):
    name = 'C12.not_if'
    prop = 'C12'
    doc = 'NOT negates; IF returns its second/third argument by the condition; an error condition yields that error'
    functions = ('logic.NOT', 'logic.IF')
    bounds = 'condition: logical / any integer / any float / blank / any of 8 errors; branch values symbolic integers'

    def cases(self, tier):
        return [{'fn': 'NOT'}, {'fn': 'IF'}]

    def run(self, env, inp, p):
        e = E.cur() if env.symbolic else None
        tag, c = pick_tagged(env, e, inp, 'c', TRUTH_TAGS + ERR8, 'c')
        if p['fn'] == 'NOT':
            return self.parse_with(env, 'NOT(vc)', {'vc': c})
        if env.symbolic:
            inp['a'] = e.fresh_int('a')
            inp['b'] = e.fresh_int('b')
        return self.parse_with(env, 'IF(vc,va,vb)', {'vc': c, 'va': inp['a'], 'vb': inp['b']})

    def post(self, env, inp, out, p):
        if not is_record(out):
            return False
        tag, c = inp['c']['tag'], inp['c']['val']
        if tag in CODES:
            return err_is(out, tag)
        if out['error'] is not None:
            return False
        r = out['result']
        if p['fn'] == 'NOT':
            return And(isbool(r), Iff(r, Not(truth(c))))
        if not isint(r):
            return False
        t = truth(c)
        return And(Implies(t, r == inp['a']), Implies(Not(t), r == inp['b']))


@register
class IfsSwitch(Harness):
    name = 'C12.ifs_switch'
    prop = 'C12'
    doc = 'IFS: value paired with the first true condition else #N/A; SWITCH: result paired with the first case equal ' \
          'to the target, else the default, else #N/A; an error condition / target yields that error'
    functions = ('logic.IFS', 'logic.SWITCH')
    bounds = 'IFS: 1..6 pairs, conditions logical/int/blank (or one error), values symbolic ints; SWITCH: target and ' \
             'cases symbolic ints or 1-char texts, 1..4 cases (repeated cases arise symbolically), with and without default'

    def cases(self, tier):
        out = []
        for k in (1, 2, 3, 4, 5, 6):
            out.append({'fn': 'IFS', 'k': k, 'err': -1})
            for ep in range(k):
                if k <= 4 or ep == 0 or (ep == k - 1 and (k == 5 or tier != 'quick')):
                    out.append({'fn': 'IFS', 'k': k, 'err': ep})
            for d in (False, True):
                for kind in ('int', 'text', 'floatint', 'intfloat'):
                    if k > 4 and kind != 'int':
                        continue
                    out.append({'fn': 'SWITCH', 'k': k, 'default': d, 'kind': kind})
        out.append({'fn': 'SWITCH', 'k': 1, 'default': True, 'kind': 'err'})
        return out

    def build(self, e, p):
        inp = {}
        if p['fn'] == 'IFS':
            inp['vals'] = [e.fresh_int('r%d' % i) for i in range(p['k'])]
            return inp
        if p['kind'] == 'text':
            mk = lambda n: e.fresh_str(n, 1, alphabet=[(97, 100)])
        else:
            mk = lambda n: e.fresh_int(n)
        # a float target against integer cases (and the reverse): equal numbers match whatever their type
        fl = lambda n: SymFloat(iz=e.fresh_int(n).z)
        inp['target'] = fl('t') if p['kind'] == 'floatint' else mk('t')
        inp['cases'] = [(fl if p['kind'] == 'intfloat' else mk)('c%d' % i) for i in range(p['k'])]
        inp['vals'] = [e.fresh_int('r%d' % i) for i in range(p['k'])]
        inp['default'] = e.fresh_int('dflt') if p['default'] else None
        return inp

    def run(self, env, inp, p):
        e = E.cur() if env.symbolic else None
        k = p['k']
        if p['fn'] == 'IFS':
            vals = {}
            args = []
            for i in range(k):
                tags = ERR8 if i == p['err'] else ['bool', 'int', 'blank']
                tag, c = pick_tagged(env, e, inp, 'c%d' % i, tags, 'c%d' % i)
                vals['vc%s' % 'abcdef'[i]] = c
                vals['vr%s' % 'abcdef'[i]] = inp['vals'][i]
                args += ['vc%s' % 'abcdef'[i], 'vr%s' % 'abcdef'[i]]
            return self.parse_with(env, 'IFS(%s)' % ','.join(args), vals)
        vals = {'vt': inp['target']}
        if p['kind'] == 'err':
            tag, t = pick_tagged(env, e, inp, 'terr', ERR8, 't')
            vals['vt'] = t
        args = ['vt']
        for i in range(k):
            vals['vc%s' % 'abcdef'[i]] = inp['cases'][i]
            vals['vr%s' % 'abcdef'[i]] = inp['vals'][i]
            args += ['vc%s' % 'abcdef'[i], 'vr%s' % 'abcdef'[i]]
        if p['default']:
            vals['vd'] = inp['default']
            args.append('vd')
        return self.parse_with(env, 'SWITCH(%s)' % ','.join(args), vals)

    def post(self, env, inp, out, p):
        if not is_record(out):
            return False
        k = p['k']
        r = out['result']
        if p['fn'] == 'IFS':
            if p['err'] >= 0:
                # conditions before the error position decide first
                conds = [truth(inp['c%d' % i]['val']) for i in range(p['err'])]
                none_before = And(*[Not(c) for c in conds])
                clauses = [Implies(none_before, err_is(out, inp['c%d' % p['err']]['tag']))]
                seen = True
                for i in range(p['err']):
                    first = And(seen, conds[i])
                    clauses.append(Implies(first, And(out['error'] is None, isint(r) and r == inp['vals'][i])))
                    seen = And(seen, Not(conds[i]))
                return And(*clauses)
            conds = [truth(inp['c%d' % i]['val']) for i in range(k)]
            clauses = []
            seen = True
            for i in range(k):
                first = And(seen, conds[i])
                clauses.append(Implies(first, And(out['error'] is None, isint(r) and r == inp['vals'][i])))
                seen = And(seen, Not(conds[i]))
            clauses.append(Implies(seen, err_is(out, '#N/A')))
            return And(*clauses)
        if p['kind'] == 'err':
            return err_is(out, inp['terr']['tag'])
        t = inp['target']
        clauses = []
        seen = True
        for i in range(k):
            hit = And(seen, t == inp['cases'][i])
            clauses.append(Implies(hit, And(out['error'] is None, isint(r) and r == inp['vals'][i])))
            seen = And(seen, Not(t == inp['cases'][i]))
        if p['default']:
            clauses.append(Implies(seen, And(out['error'] is None, isint(r) and r == inp['default'])))
        else:
            clauses.append(Implies(seen, err_is(out, '#N/A')))
        return And(*clauses)


PRED_TAGS = ['int', 'float', 'bool', 'blank', 'text', 'numtext'] + ERR8


@register
class Predicates(Harness):
    name = 'C12.predicates'
    prop = 'C12'
    doc = 'ISNUMBER / ISTEXT / ISLOGICAL / ISBLANK / ISERROR are mutually exclusive and exact; ISNONTEXT = not ISTEXT; ' \
          'ISERROR = ISERR or ISNA; ISEVEN / ISODD = parity of the integer part, complementary'
    functions = ('information.ISNUMBER', 'information.ISTEXT', 'information.ISLOGICAL', 'information.ISBLANK',
                 'information.ISERROR', 'information.ISERR', 'information.ISNA', 'information.ISNONTEXT',
                 'information.ISEVEN', 'information.ISODD')
    bounds = 'value of every tag: any integer, any float (real abstraction), logical, blank, text of 2 letters, numeric ' \
             'text of 2 digits, each of the 8 error values; parity on all integers and all floats |x| < 2^53'
    outside = ('dates as predicate arguments', 'parity of logicals')

    def cases(self, tier):
        return [{'what': 'classify'}, {'what': 'parity', 'tag': 'int'}, {'what': 'parity', 'tag': 'float'}]

    def run(self, env, inp, p):
        e = E.cur() if env.symbolic else None
        if p['what'] == 'classify':
            tag, v = pick_tagged(env, e, inp, 'v', PRED_TAGS, 'v')
            fns = ['ISNUMBER', 'ISTEXT', 'ISLOGICAL', 'ISBLANK', 'ISERROR', 'ISNONTEXT', 'ISERR', 'ISNA']
            return [self.parse_with(env, '%s(vx)' % f, {'vx': v}) for f in fns]
        if env.symbolic:
            if p['tag'] == 'int':
                inp['n'] = e.fresh_int('n')
            else:
                inp['n'] = e.fresh_real('n', -(2 ** 53), 2 ** 53)
        return [self.parse_with(env, '%s(vx)' % f, {'vx': inp['n']}) for f in ('ISEVEN', 'ISODD')]

    def post(self, env, inp, out, p):
        if isinstance(out, Raised) or not all(ok_result(o) for o in out):
            return False
        rs = [o['result'] for o in out]
        if p['what'] == 'classify':
            tag = inp['v']['tag']
            if not all(isinstance(r, bool) for r in rs):
                return False
            num, text, logical, blank, err, nontext, iserr, isna = rs
            want = {'int': 0, 'float': 0, 'text': 1, 'numtext': 1, 'bool': 2, 'blank': 3}.get(tag, 4)
            exact = [num, text, logical, blank, err] == [i == want for i in range(5)]
            return exact and nontext == (not text) and err == (iserr or isna) and (isna == (tag == '#N/A')) and not (iserr and isna)
        ev, od = rs
        n = inp['n']
        if isinstance(n, (SymFloat, float)):
            import math
            ip = n.__trunc__() if isinstance(n, SymFloat) else math.trunc(n)
        else:
            ip = n
        even = (ip % 2 == 0)
        ev_t = ev if isinstance(ev, (bool, SymBool)) else (ev != 0)
        od_t = od if isinstance(od, (bool, SymBool)) else (od != 0)
        return And(Iff(ev_t, even), Iff(od_t, Not(even)))
