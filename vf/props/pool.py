"""Operand pool by type tag for the operator properties (C06, C07, C08) and their value oracle."""
import datetime
import z3
from ..values import SymInt, SymBool, SymFloat, SymStr, zint, mkint, mkbool, zbool, cps_of, zcp, _floatval_nofork
from .. import dates
from ..dates import SymDateTime, as_sym_dt, US_DAY
from .common import DIGITS, CODES

ORD_1899_12_30 = datetime.date(1899, 12, 30).toordinal()
ORD_1900_03_01 = datetime.date(1900, 3, 1).toordinal()

SCALAR_TAGS = ('int', 'float', 'bool', 'blank', 'text', 'date', 'datetime')


def make(e, tag, name, length=2, month=None):
    """symbolic operand of a tag"""
    if tag == 'int':
        return e.fresh_int(name)
    if tag == 'float':
        return e.fresh_real(name)
    if tag == 'bool':
        return e.fresh_bool(name)
    if tag == 'blank':
        return None
    if tag == 'text':
        return e.fresh_str(name, length) if length else ''
    if tag == 'earlydate':
        # the 59 days before the 1900 date system's phantom leap day: serial = days since 1899-12-31, except 1900-01-01 which
        # this library uses for Excel's 1900/1/0 (serial 0; pinned by the repository's tests and accepted by C13's statement)
        return dates.fresh_datetime_ord(e, name, ORD_1900_03_01 - 59, ORD_1900_03_01 - 1, with_time=False)
    if tag in ('date', 'datetime'):
        if month is None:
            return dates.fresh_datetime_ord(e, name, ORD_1900_03_01, None, with_time=(tag == 'datetime'))
        d = dates.fresh_datetime(e, name, month=month, with_time=(tag == 'datetime'))
        e.add(d.ord >= ORD_1900_03_01)
        return d
    raise ValueError(tag)


def is_date(v):
    return isinstance(v, (SymDateTime, datetime.datetime))


def is_text(v):
    return isinstance(v, (str, SymStr))


def is_logical(v):
    return isinstance(v, (bool, SymBool))


def is_number(v):
    return isinstance(v, (int, float, SymInt, SymFloat)) and not is_logical(v)


def serial_real(t):
    """Excel 1900 serial of a date-time on/after 1900-01-01, exact rational (z3 Real): one more from 1900-03-01 on (the
    phantom 29 February 1900 of the 1900 date system)"""
    t = as_sym_dt(t)
    base = z3.If(t.ord >= ORD_1900_03_01, t.ord - ORD_1899_12_30,
                 z3.If(t.ord == ORD_1900_03_01 - 59, 0, t.ord - ORD_1899_12_30 - 1))      # 1900-01-01: serial 0 ("1900/1/0")
    return z3.ToReal(z3.simplify(base)) + z3.ToReal(t.us) / US_DAY


def num_real(v):
    """z3 Real of the numeric value of a number / logical / blank / date"""
    if v is None:
        return z3.RealVal(0)
    if is_logical(v):
        return z3.ToReal(zint(v))
    if is_date(v):
        return serial_real(v)
    return _floatval_nofork(v)
