"""C17 - rounding and integer functions meet their specs; radix conversions invert."""
import z3
from ..harness import Harness, register, Raised
from ..spec import And, Or, Not, Implies, Iff, tb
from ..values import SymInt, SymBool, SymFloat, SymStr, zint, mkint, mkbool
from .common import (operand, ok_result, err_is, any_error, isint, isnum, isstr, isbool, is_record)


def _zi(v):
    return zint(v)


def _even(z):
    return z % 2 == 0


def as_intval(res):
    """z3 Int term for an integer-valued numeric result (int, or float known to be integral), else None."""
    if isinstance(res, bool) or isinstance(res, SymBool):
        return None
    if isinstance(res, (int, SymInt)):
        return zint(res)
    if isinstance(res, float):
        return z3.IntVal(int(res)) if res == int(res) else None
    if isinstance(res, SymFloat):
        return res.iz
    return None


@register
class IntFns(Harness):
    name = 'C17.intfns'
    prop = 'C17'
    doc = 'INT / EVEN / ODD / SIGN on every integer, logical and numeric text, through Parser.parse'
    functions = ('mathtrig.INT', 'mathtrig.EVEN', 'mathtrig.ODD', 'mathtrig.SIGN', 'utils.parse_number',
                 'helper.number.to_number', 'Parser.parse', 'Parser.call_function', 'Parser.call_variable')
    bounds = 'operand: any integer (unbounded) / numeric text of 1-3 digits with optional minus'
    outside = ('decimal fractions',)

    def cases(self, tier):
        out = []
        for fn in ('INT', 'EVEN', 'ODD', 'SIGN'):
            out.append({'fn': fn, 'tag': 'int'})
            if fn in ('EVEN', 'ODD'):
                for nd in ((1, 2) if tier == 'quick' else (1, 2, 3, 4)):
                    out.append({'fn': fn, 'tag': 'numtext', 'ndigits': nd})
                    out.append({'fn': fn, 'tag': 'negnumtext', 'ndigits': nd})
                out.append({'fn': fn, 'tag': 'bool'})
        return out

    def build(self, e, p):
        v, n = operand(e, p['tag'], 'n', ndigits=p.get('ndigits', 2))
        return {'va': v}

    def run(self, env, inp, p):
        return self.parse_with(env, '%s(va)' % p['fn'], inp)

    def post(self, env, inp, out, p):
        if not ok_result(out):
            return False
        v = inp['va']
        if isstr(v):
            if env.symbolic:
                from ..models import m_int
                n = m_int(v)
            else:
                n = int(v)
        elif isbool(v):
            n = mkint(zint(v))
        else:
            n = v
        r = out['result']
        rz = as_intval(r)
        if rz is None:
            return False
        nz = zint(n)
        fn = p['fn']
        if fn == 'INT':
            return mkbool(rz == nz)
        if fn == 'SIGN':
            return mkbool(rz == z3.If(nz > 0, 1, z3.If(nz < 0, -1, 0)))
        par = 0 if fn == 'EVEN' else 1
        # nearest even/odd integer at or beyond n, away from zero (Excel: ODD(0) = 1, EVEN(0) = 0)
        want = z3.If(nz >= 0,
                     z3.If(nz % 2 == par, nz, nz + 1),
                     z3.If((-nz) % 2 == par, nz, nz - 1))
        return mkbool(z3.simplify(rz == want))


@register
class ModQuot(Harness):
    name = 'C17.modquot'
    prop = 'C17'
    doc = 'MOD and QUOTIENT on all integer pairs: remainder with the divisor sign, truncated quotient, zero divisor'
    functions = ('mathtrig.MOD', 'mathtrig.QUOTIENT', 'utils.parse_number')
    bounds = 'MOD: all integer pairs; QUOTIENT: |n| < 2^52, 1 <= |d| <= 64 (divisor split concretely; the float quotient ' \
             'is decided under the relative-error model of IEEE division)'
    outside = ('decimal operands', 'QUOTIENT with |divisor| > 64 or |n| >= 2^52')

    def cases(self, tier):
        out = [{'fn': 'MOD'}, {'fn': 'QUOTIENT', 'd': 0}]
        ds = list(range(1, 9)) + [10, 16, 60, 64] if tier == 'quick' else list(range(1, 65))
        for d in ds:
            out.append({'fn': 'QUOTIENT', 'd': d})
            out.append({'fn': 'QUOTIENT', 'd': -d})
        return out

    def build(self, e, p):
        if p['fn'] == 'MOD':
            return {'va': e.fresh_int('n'), 'vb': e.fresh_int('d')}
        return {'va': e.fresh_int('n', -(2 ** 52) + 1, 2 ** 52 - 1), 'vb': p['d']}

    def run(self, env, inp, p):
        return self.parse_with(env, '%s(va,vb)' % p['fn'], inp)

    def post(self, env, inp, out, p):
        n, d = zint(inp['va']), zint(inp['vb'])
        if not is_record(out):
            return False
        r = out['result']
        rz = as_intval(r)
        if p['fn'] == 'MOD':
            if out['error'] is not None:
                return And(out['error'] == '#DIV/0!', mkbool(d == 0))
            if rz is None:
                return False
            return mkbool(z3.And(d != 0, (n - rz) % d == 0, z3.If(d > 0, z3.And(rz >= 0, rz < d), z3.And(rz <= 0, rz > d))))
        if out['error'] is not None:
            return And(out['error'] == '#DIV/0!', mkbool(d == 0))
        if rz is None:
            return False
        # truncated quotient: sign-aware floor of |n|/|d|
        ad = z3.If(d < 0, -d, d)
        an = z3.If(n < 0, -n, n)
        q = an / ad
        want = z3.If((n < 0) != (d < 0), -q, q)
        return mkbool(z3.And(d != 0, rz == want))


# ------------------------------------------------------------------------------------------------
LO40, HI40 = -(2 ** 39), 2 ** 39 - 1


def T(x):
    return x is True or (x is not False and bool(x))


@register
class Hex(Harness):
    name = 'C17.hex'
    prop = 'C17'
    doc = 'HEX2DEC(DEC2HEX(n)) = n over the whole 40-bit two\'s-complement range; values outside it give an error'
    functions = ('engineering.DEC2HEX', 'engineering.HEX2DEC', 'utils.parse_number')
    bounds = 'every n in -2^39 .. 2^39-1 (split by sign and hex digit count through the model of hex()); outside: every n in ' \
             '+-2^41 beyond the range; HEX2DEC of 11-digit texts'

    def cases(self, tier):
        return [{'r': 'in'}, {'r': 'above'}, {'r': 'below'}, {'r': 'text11'}]

    def build(self, e, p):
        if p['r'] == 'in':
            return {'n': e.fresh_int('n', LO40, HI40)}
        if p['r'] == 'above':
            return {'n': e.fresh_int('n', HI40 + 1, 2 ** 41)}
        if p['r'] == 'below':
            return {'n': e.fresh_int('n', -(2 ** 41), LO40 - 1)}
        s = e.fresh_str('h', 11, alphabet=[(48, 57), (65, 70)])
        e.add(s.cps[0] != 48)
        return {'h': s}

    def run(self, env, inp, p):
        if p['r'] == 'text11':
            return self.parse_with(env, 'HEX2DEC(vh)', {'vh': inp['h']})
        if p['r'] == 'in':
            return self.parse_with(env, 'HEX2DEC(DEC2HEX(vn))', {'vn': inp['n']})
        return self.parse_with(env, 'DEC2HEX(vn)', {'vn': inp['n']})

    def post(self, env, inp, out, p):
        if p['r'] == 'in':
            return And(ok_result(out), isint(out['result']) and out['result'] == inp['n'])
        return any_error(out)


DIGITS36 = '0123456789ABCDEFGHIJKLMNOPQRSTUVWXYZ'


@register
class Base(Harness):
    name = 'C17.base'
    prop = 'C17'
    termination = True
    doc = 'DECIMAL(BASE(n,r),r) = n for every radix 2..36 with letter digits above 9; radix outside 2..36 or a negative number ' \
          'give an error; every call terminates'
    functions = ('mathtrig.BASE', 'mathtrig.DECIMAL')
    bounds = '0 <= n < 2^39 (quick: < 2^20) for each radix 2..36; bad radix: -3..1 and 37..40 with |n| <= 4096; negative n: -4096..-1; ' \
             'termination: iteration budget of the engine, confirmed by replay under a line-event budget'
    max_ticks = 3000
    step_budget = 300000

    def cases(self, tier):
        out = [{'radix': r, 'mode': 'ok'} for r in range(2, 37)]
        out += [{'radix': r, 'mode': 'badradix'} for r in (-3, -1, 0, 1, 37, 40)]
        out += [{'radix': r, 'mode': 'neg'} for r in (2, 10, 16)]
        return out

    def build(self, e, p):
        if p['mode'] == 'ok':
            return {'n': e.fresh_int('n', 0, 2 ** 39 - 1)}
        if p['mode'] == 'neg':
            return {'n': e.fresh_int('n', -4096, -1)}
        return {'n': e.fresh_int('n', -4096, 4096)}

    def run(self, env, inp, p):
        vs = {'vn': inp['n'], 'vr': p['radix']}
        if p['mode'] == 'ok':
            return [self.parse_with(env, 'BASE(vn,vr)', vs), self.parse_with(env, 'DECIMAL(BASE(vn,vr),vr)', vs)]
        return [self.parse_with(env, 'BASE(vn,vr)', vs)]

    def post(self, env, inp, out, p):
        if isinstance(out, Raised) or not all(is_record(o) for o in out):
            return False
        if p['mode'] != 'ok':
            return any_error(out[0])
        b, d = out
        if not ok_result(b) or not isstr(b['result']):
            return False
        from ..values import cps_of, zcp
        r = p['radix']
        okdigits = []
        val = z3.IntVal(0)
        for c in cps_of(b['result']):
            c = zcp(c)
            v = z3.If(c <= 57, c - 48, c - 55)
            okdigits.append(z3.And(z3.Or(z3.And(c >= 48, c <= 57), z3.And(c >= 65, c <= 90)), v < r))
            val = val * r + v
        return And(mkbool(z3.simplify(z3.And(*okdigits))), mkbool(z3.simplify(val == zint(inp['n']))),
                   ok_result(d), isint(d['result']) and d['result'] == inp['n'])


@register
class Rounding(Harness):
    name = 'C17.rounding'
    prop = 'C17'
    doc = 'ROUND / ROUNDUP / ROUNDDOWN on integers: a multiple of 10^-digits within half a unit / at or above / at or below in magnitude'
    functions = ('mathtrig.ROUND', 'mathtrig.ROUNDUP', 'mathtrig.ROUNDDOWN')
    bounds = 'every integer |n| < 2^50, digits -6..6 (ROUND), 0..6 (ROUNDUP / ROUNDDOWN)'
    outside = ('decimal fractions', 'ROUNDUP / ROUNDDOWN with negative digits (the float kernel ceil(n * 10^d) is beyond the abstraction)')

    def cases(self, tier):
        out = [{'fn': 'ROUND', 'd': d} for d in range(-6, 7)]
        out += [{'fn': f, 'd': d} for f in ('ROUNDUP', 'ROUNDDOWN') for d in range(0, 7)]
        return out

    def build(self, e, p):
        return {'n': e.fresh_int('n', -(2 ** 50), 2 ** 50)}

    def run(self, env, inp, p):
        return self.parse_with(env, '%s(vn,%d)' % (p['fn'], p['d']), {'vn': inp['n']})

    def post(self, env, inp, out, p):
        if not ok_result(out):
            return False
        rz = as_intval(out['result'])
        if rz is None:
            return False
        n = zint(inp['n'])
        d = p['d']
        if d >= 0:
            return mkbool(z3.simplify(rz == n))
        m = 10 ** (-d)
        return mkbool(z3.simplify(z3.And(rz % m == 0, 2 * (rz - n) <= m, 2 * (n - rz) <= m)))


@register
class CeilFloor(Harness):
    name = 'C17.ceilfloor'
    prop = 'C17'
    doc = 'CEILING / FLOOR return the adjacent multiple of the significance on the documented side'
    functions = ('mathtrig.CEILING', 'mathtrig.FLOOR')
    bounds = 'every integer |n| < 2^50; significance split concretely over +-1..12 (quick) / +-1..64 (thorough) and 0'
    outside = ('decimal numbers or significances',)

    def cases(self, tier):
        ss = list(range(1, 13)) if tier == 'quick' else list(range(1, 65))
        out = []
        for fn in ('CEILING', 'FLOOR'):
            out.append({'fn': fn, 's': 0})
            for s in ss:
                out.append({'fn': fn, 's': s})
                out.append({'fn': fn, 's': -s})
        return out

    def build(self, e, p):
        return {'n': e.fresh_int('n', -(2 ** 50), 2 ** 50)}

    def run(self, env, inp, p):
        return self.parse_with(env, '%s(vn,vs)' % p['fn'], {'vn': inp['n'], 'vs': p['s']})

    def post(self, env, inp, out, p):
        if not is_record(out):
            return False
        n, s, fn = zint(inp['n']), p['s'], p['fn']
        if s == 0:
            return And(ok_result(out), as_intval(out['result']) is not None and mkbool(z3.simplify(as_intval(out['result']) == 0)))
        a = abs(s)
        if fn == 'FLOOR' and s < 0:
            pos = mkbool(z3.simplify(n > 0))
            if T(pos):
                return err_is(out, '#NUM!')
        if not ok_result(out):
            return False
        rz = as_intval(out['result'])
        if rz is None:
            return False
        up = z3.And(rz % a == 0, rz >= n, rz - a < n)       # least multiple >= n
        down = z3.And(rz % a == 0, rz <= n, rz + a > n)     # greatest multiple <= n
        if fn == 'CEILING':
            want = z3.If(z3.Or(n >= 0, s > 0), up, down)
        else:
            want = z3.If(z3.Or(n >= 0, s > 0), down, up)
        return mkbool(z3.simplify(want))


@register
class Factorials(Harness):
    name = 'C17.fact'
    prop = 'C17'
    doc = 'FACT / FACTDOUBLE are the factorial and double factorial; negative arguments give an error'
    functions = ('mathtrig.FACT', 'mathtrig.FACTDOUBLE')
    bounds = 'n in -10..20 (each value its own path: an enumeration in effect)'

    def cases(self, tier):
        return [{'fn': 'FACT'}, {'fn': 'FACTDOUBLE'}]

    def build(self, e, p):
        return {'n': e.fresh_int('n', -10, 20)}

    def run(self, env, inp, p):
        return self.parse_with(env, '%s(vn)' % p['fn'], {'vn': inp['n']})

    def post(self, env, inp, out, p):
        if not is_record(out):
            return False
        n = inp['n']
        if T(n < 0):
            return any_error(out)
        from ..values import concretize_int
        k = concretize_int(n, 0, 20, 'n') if env.symbolic else n
        import math
        if p['fn'] == 'FACT':
            want = math.factorial(k)
        else:
            want = 1
            j = k
            while j > 1:
                want *= j
                j -= 2
        return And(ok_result(out), isint(out['result']) and out['result'] == want)


ROMAN_VAL = {'I': 1, 'V': 5, 'X': 10, 'L': 50, 'C': 100, 'D': 500, 'M': 1000}


def roman_value(s):
    """general subtractive reading of a Roman numeral (a smaller value before a larger one is subtracted)"""
    vals = [ROMAN_VAL.get(ch) for ch in s]
    if not vals or any(v is None for v in vals):
        return None
    tot = 0
    for i, v in enumerate(vals):
        if any(w > v for w in vals[i + 1:i + 2]) or (i + 1 < len(vals) and vals[i + 1] > v):
            tot -= v
        else:
            tot += v
    return tot


QUICK_ROMAN_RANGES = [(1, 20), (21, 40), (41, 60), (90, 110), (390, 410), (490, 510), (890, 910), (990, 1010), (1990, 2010), (3980, 3999)]


class _RomanBase(Harness):
    prop = 'C17'
    functions = ('mathtrig.ROMAN', 'mathtrig.ARABIC')
    bounds = 'forms 0..4; quick: n in the ranges 1-60, 90-110, 390-410, 490-510, 890-910, 990-1010, 1990-2010, 3980-3999; thorough: ' \
             'every n in 1..3999.  Each n is its own path class (the numeral is assembled from repetition counts), so this ' \
             'harness is an enumeration in effect and is stated as such'
    case_timeout_s = {'quick': 200, 'thorough': 2400}

    def cases(self, tier):
        out = []
        for f in range(5):
            if tier == 'quick':
                rs = QUICK_ROMAN_RANGES
            else:
                rs = [(lo, min(3999, lo + 99)) for lo in range(1, 4000, 100)]
            for lo, hi in rs:
                out.append({'form': f, 'lo': lo, 'hi': hi})
        return out

    def build(self, e, p):
        return {'n': e.fresh_int('n', p['lo'], p['hi'])}


@register
class RomanDenotes(_RomanBase):
    name = 'C17.roman_denotes'
    doc = 'every conciseness form of ROMAN(n, f) is a numeral denoting n (general subtractive reading, evaluated independently)'

    def run(self, env, inp, p):
        return self.parse_with(env, 'ROMAN(vn,%d)' % p['form'], {'vn': inp['n']})

    def post(self, env, inp, out, p):
        if not ok_result(out) or not isinstance(out['result'], str):
            return False
        denotes = roman_value(out['result'])
        return denotes is not None and (inp['n'] == denotes)


@register
class RomanArabic(_RomanBase):
    name = 'C17.roman_arabic'
    doc = 'ARABIC(ROMAN(n, f)) = n'

    def run(self, env, inp, p):
        vs = {'vn': inp['n']}
        r = self.parse_with(env, 'ROMAN(vn,%d)' % p['form'], vs)
        r0 = self.parse_with(env, 'ROMAN(vn,0)', vs)
        # derived input used by the known-finding region: the numeral differs from the classic (form 0) spelling
        inp['concise'] = bool(is_record(r) and is_record(r0) and r['result'] != r0['result'])
        return self.parse_with(env, 'ARABIC(ROMAN(vn,%d))' % p['form'], vs)

    def post(self, env, inp, out, p):
        return And(ok_result(out), isint(out['result']) and out['result'] == inp['n'])


@register
class ComplexParts(Harness):
    name = 'C17.complex'
    prop = 'C17'
    doc = 'IMREAL / IMAGINARY recover the integer parts given to COMPLEX'
    functions = ('engineering.COMPLEX', 'engineering.IMREAL', 'engineering.IMAGINARY', 'utils.parse_complex')
    bounds = 'all integers |a|, |b| < 2^53'

    def build(self, e, p):
        return {'a': e.fresh_int('a', -(2 ** 53) + 1, 2 ** 53 - 1), 'b': e.fresh_int('b', -(2 ** 53) + 1, 2 ** 53 - 1)}

    def run(self, env, inp, p):
        vs = {'va': inp['a'], 'vb': inp['b']}
        return [self.parse_with(env, 'IMREAL(COMPLEX(va,vb))', vs), self.parse_with(env, 'IMAGINARY(COMPLEX(va,vb))', vs)]

    def post(self, env, inp, out, p):
        if isinstance(out, Raised) or not all(ok_result(o) for o in out):
            return False
        re_, im = out[0]['result'], out[1]['result']
        return And(isint(re_) and re_ == inp['a'], isint(im) and im == inp['b'])


# ------------------------------------------------------------------------------------------------
def as_dyadic(res):
    """(num, k) with the numeric result == num / 2^k exactly, else None"""
    if isinstance(res, (bool, SymBool)):
        return None
    if isinstance(res, (int, SymInt)):
        return zint(res), 0
    if isinstance(res, float):
        if res != res or res in (float('inf'), float('-inf')):
            return None
        n, d = res.as_integer_ratio()
        return z3.IntVal(n), d.bit_length() - 1
    if isinstance(res, SymFloat):
        if res.iz is not None:
            return res.iz, 0
        if res.dy is not None:
            return res.dy
    return None


def as_quotient(res):
    """(q, den) with the numeric result == the double nearest to q / den (den a positive integer constant), else None"""
    if isinstance(res, SymFloat) and res.quot is not None and z3.is_int_value(z3.simplify(res.quot[1])):
        return res.quot[0], z3.simplify(res.quot[1]).as_long()
    d = as_dyadic(res)
    if d is not None and d[1] == 0:
        return d[0], 1
    return None


DY_DIVISORS = [0.5, -0.5, 0.25, 1.5, -2.5, 3.0, -7.0, 0.125, 100.0, 25.0]
DY_SIGNIFS = [0.25, -0.25, 0.5, 0.75, -0.75, 1.5, 0.125, 2.5, -2.5, 25.0, 100.0]


@register
class Dyadic(Harness):
    name = 'C17.dyadic'
    prop = 'C17'
    doc = 'the integer and rounding functions on dyadic fractions m / 2^k (exactly representable, so the float arithmetic of the ' \
          'implementation is decided exactly): INT, EVEN, ODD, SIGN, QUOTIENT and MOD with fractional operands, CEILING / FLOOR ' \
          'with fractional significances, ROUND / ROUNDUP / ROUNDDOWN to 0..3 (ROUND: -2..3) digits'
    functions = ('mathtrig.INT', 'mathtrig.EVEN', 'mathtrig.ODD', 'mathtrig.SIGN', 'mathtrig.QUOTIENT', 'mathtrig.MOD', 'mathtrig.CEILING',
                 'mathtrig.FLOOR', 'mathtrig.ROUND', 'mathtrig.ROUNDUP', 'mathtrig.ROUNDDOWN', 'utils.parse_number')
    bounds = 'number = m / 2^k for every integer |m| < 2^40 and k = 1..3 (quick: 1..2), also k = 0 as an integer-valued float; ' \
             'divisors from %r, significances from %r; digits 0..3 (ROUND -2..3).  Float operations on these values are exact ' \
             '(sums, products) or correctly rounded quotients of integers, whose floor / ceil / trunc equal those of the exact ' \
             'rational' % (DY_DIVISORS, DY_SIGNIFS)
    outside = ('fractions that are not dyadic (0.1, 0.3: their doubles are not the decimal they spell)', '|m| >= 2^40')
    case_timeout_s = {'quick': 200, 'thorough': 1500}

    def cases(self, tier):
        ks = (0, 1, 2) if tier == 'quick' else (0, 1, 2, 3)
        out = []
        for k in ks:
            for fn in ('INT', 'EVEN', 'ODD', 'SIGN'):
                if k:
                    out.append({'fn': fn, 'k': k})
            for y in DY_DIVISORS:
                out.append({'fn': 'QUOTIENT', 'k': k, 'y': y})
            for y in (0.5, -0.75, 1.5, -2.5):
                out.append({'fn': 'MOD', 'k': k, 'y': y})
            for s in DY_SIGNIFS:
                out.append({'fn': 'CEILING', 'k': k, 'y': s})
                out.append({'fn': 'FLOOR', 'k': k, 'y': s})
            if k:
                for d in (-2, -1, 0, 1, 2, 3):
                    out.append({'fn': 'ROUND', 'k': k, 'd': d})
                for d in (0, 1, 2, 3):
                    out.append({'fn': 'ROUNDUP', 'k': k, 'd': d})
                    out.append({'fn': 'ROUNDDOWN', 'k': k, 'd': d})
        return out

    def build(self, e, p):
        from ..values import SymFloat as SF
        if p['k'] == 0:
            m = e.fresh_int('m', -(2 ** 40) + 1, 2 ** 40 - 1)
            return {'x': SF(iz=m.z)}
        return {'x': e.fresh_dyadic('m', p['k'], -(2 ** 40) + 1, 2 ** 40 - 1)}

    def run(self, env, inp, p):
        vs = {'vx': inp['x']}
        if 'y' in p:
            vs['vy'] = p['y']
            return self.parse_with(env, '%s(vx,vy)' % p['fn'], vs)
        if 'd' in p:
            return self.parse_with(env, '%s(vx,%s)' % (p['fn'], ('0%d' % p['d']) if p['d'] < 0 else p['d']) if False else
                                   '%s(vx,vd)' % p['fn'], dict(vs, vd=p['d']))
        return self.parse_with(env, '%s(vx)' % p['fn'], vs)

    def post(self, env, inp, out, p):
        if not is_record(out):
            return False
        fn, k = p['fn'], p['k']
        xm, xk = as_dyadic(inp['x'])
        # all comparisons on integers scaled by a common power of two
        if fn == 'FLOOR' and p['y'] < 0:
            if T(mkbool(z3.simplify(xm > 0))):
                return err_is(out, '#NUM!')
        if not ok_result(out):
            return False
        res = out['result']
        two = lambda n: 2 ** n
        if fn in ('INT', 'EVEN', 'ODD', 'SIGN'):
            rz = as_intval(res)
            if rz is None:
                return False
            den = z3.IntVal(two(xk))
            if fn == 'INT':
                return mkbool(z3.simplify(z3.And(rz * den <= xm, (rz + 1) * den > xm)))
            if fn == 'SIGN':
                return mkbool(z3.simplify(rz == z3.If(xm > 0, 1, z3.If(xm < 0, -1, 0))))
            par = 0 if fn == 'EVEN' else 1
            am, ar = z3.If(xm < 0, -xm, xm), z3.If(xm < 0, -rz, rz)
            # |r| is the least integer of the parity that is >= |x|; the sign follows x (zero: EVEN 0, ODD 1)
            return mkbool(z3.simplify(z3.And(ar % 2 == par, ar * den >= am, (ar - 2) * den < am, ar >= par,
                                             z3.Implies(xm == 0, rz == par))))
        if fn in ('QUOTIENT', 'MOD', 'CEILING', 'FLOOR'):
            yn, yd = p['y'].as_integer_ratio()
            yk = yd.bit_length() - 1
            if fn == 'QUOTIENT':
                rz = as_intval(res)
                if rz is None:
                    return False
                # x / y = (xm * 2^yk) / (yn * 2^xk): truncated
                a, b = xm * two(yk), z3.IntVal(yn * two(xk))
                aa, ab = z3.If(a < 0, -a, a), z3.If(b < 0, -b, b)
                q = aa / ab
                return mkbool(z3.simplify(rz == z3.If((a < 0) != (b < 0), -q, q)))
            rd = as_dyadic(res)
            if rd is None:
                return False
            K = max(rd[1], xk, yk)
            R, X, A = rd[0] * two(K - rd[1]), xm * two(K - xk), abs(yn) * two(K - yk)
            if fn == 'MOD':
                # number = divisor * integer + MOD, MOD carries the divisor's sign and is smaller in magnitude
                Y = yn * two(K - yk)
                sign_ok = z3.And(R >= 0, R < A) if yn > 0 else z3.And(R <= 0, -R < A)
                return mkbool(z3.simplify(z3.And((X - R) % A == 0, sign_ok)))
            up = z3.And(R % A == 0, R >= X, R - A < X)
            down = z3.And(R % A == 0, R <= X, R + A > X)
            if fn == 'CEILING':
                want = z3.If(z3.Or(X >= 0, yn > 0), up, down)
            else:
                want = z3.If(z3.Or(X >= 0, yn > 0), down, up)
            return mkbool(z3.simplify(want))
        # ROUND / ROUNDUP / ROUNDDOWN
        d = p['d']
        qd = as_quotient(res)
        if qd is None:
            return False
        q, den = qd
        if d >= 0:
            if 10 ** d % den != 0:
                return False
            q = q * (10 ** d // den)          # result = q / 10^d
            # compare q / 10^d with xm / 2^xk:  q * 2^xk  vs  xm * 10^d
            Q, X, U = q * two(xk), xm * (10 ** d), z3.IntVal(two(xk))     # U = one unit of 10^-d on this scale
        else:
            if den != 1:
                return False
            m10 = 10 ** (-d)
            Q, X, U = q * two(xk), xm, z3.IntVal(two(xk) * m10)
            if fn == 'ROUND':
                return mkbool(z3.simplify(z3.And(q % m10 == 0, 2 * (Q - X) <= U, 2 * (X - Q) <= U)))
        if fn == 'ROUND':
            return mkbool(z3.simplify(z3.And(2 * (Q - X) <= U, 2 * (X - Q) <= U)))
        aQ, aX = z3.If(Q < 0, -Q, Q), z3.If(X < 0, -X, X)
        same_sign = z3.Or(Q == 0, (Q > 0) == (X > 0))
        if fn == 'ROUNDUP':
            return mkbool(z3.simplify(z3.And(same_sign, aQ >= aX, aQ - U < aX)))
        return mkbool(z3.simplify(z3.And(same_sign, aQ <= aX, aQ + U > aX)))
