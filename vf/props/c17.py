"""C17 - rounding and integer functions meet their specs; radix conversions invert."""
import z3
from ..harness import Harness, register, Raised
from ..spec import And, Or, Not, Implies, Iff, tb
from ..values import SymInt, SymBool, SymFloat, SymStr, zint, mkint, mkbool
from .common import (operand, ok_result, err_is, any_error, isint, isnum, isstr, isbool, is_record)


def _zi(v):
    return zint(v)


def _even(z):
    return z % 2 == 0


def as_intval(res):
    """z3 Int term for an integer-valued numeric result (int, or float known to be integral), else None."""
    if isinstance(res, bool) or isinstance(res, SymBool):
        return None
    if isinstance(res, (int, SymInt)):
        return zint(res)
    if isinstance(res, float):
        return z3.IntVal(int(res)) if res == int(res) else None
    if isinstance(res, SymFloat):
        return res.iz
    return None


@register
class IntFns(Harness):
    name = 'C17.intfns'
    prop = 'C17'
    doc = 'INT / EVEN / ODD / SIGN on every integer, logical and numeric text, through Parser.parse'
    functions = ('mathtrig.INT', 'mathtrig.EVEN', 'mathtrig.ODD', 'mathtrig.SIGN', 'utils.parse_number',
                 'helper.number.to_number', 'Parser.parse', 'Parser.call_function', 'Parser.call_variable')
    bounds = 'operand: any integer (unbounded) / numeric text of 1-3 digits with optional minus'
    outside = ('decimal fractions',)

    def cases(self, tier):
        out = []
        for fn in ('INT', 'EVEN', 'ODD', 'SIGN'):
            out.append({'fn': fn, 'tag': 'int'})
            if fn in ('EVEN', 'ODD'):
                for nd in ((1, 2) if tier == 'quick' else (1, 2, 3, 4)):
                    out.append({'fn': fn, 'tag': 'numtext', 'ndigits': nd})
                    out.append({'fn': fn, 'tag': 'negnumtext', 'ndigits': nd})
                out.append({'fn': fn, 'tag': 'bool'})
        return out

    def build(self, e, p):
        v, n = operand(e, p['tag'], 'n', ndigits=p.get('ndigits', 2))
        return {'va': v}

    def run(self, env, inp, p):
        return self.parse_with(env, '%s(va)' % p['fn'], inp)

    def post(self, env, inp, out, p):
        if not ok_result(out):
            return False
        v = inp['va']
        if isstr(v):
            if env.symbolic:
                from ..models import m_int
                n = m_int(v)
            else:
                n = int(v)
        elif isbool(v):
            n = mkint(zint(v))
        else:
            n = v
        r = out['result']
        rz = as_intval(r)
        if rz is None:
            return False
        nz = zint(n)
        fn = p['fn']
        if fn == 'INT':
            return mkbool(rz == nz)
        if fn == 'SIGN':
            return mkbool(rz == z3.If(nz > 0, 1, z3.If(nz < 0, -1, 0)))
        par = 0 if fn == 'EVEN' else 1
        # nearest even/odd integer at or beyond n, away from zero (Excel: ODD(0) = 1, EVEN(0) = 0)
        want = z3.If(nz >= 0,
                     z3.If(nz % 2 == par, nz, nz + 1),
                     z3.If((-nz) % 2 == par, nz, nz - 1))
        return mkbool(z3.simplify(rz == want))


@register
class ModQuot(Harness):
    name = 'C17.modquot'
    prop = 'C17'
    doc = 'MOD and QUOTIENT on all integer pairs: remainder with the divisor sign, truncated quotient, zero divisor'
    functions = ('mathtrig.MOD', 'mathtrig.QUOTIENT', 'utils.parse_number')
    bounds = 'MOD: all integer pairs; QUOTIENT: |n| < 2^52, 1 <= |d| <= 64 (divisor split concretely; the float quotient ' \
             'is decided under the relative-error model of IEEE division)'
    outside = ('decimal operands', 'QUOTIENT with |divisor| > 64 or |n| >= 2^52')

    def cases(self, tier):
        out = [{'fn': 'MOD'}, {'fn': 'QUOTIENT', 'd': 0}]
        ds = list(range(1, 9)) + [10, 16, 60, 64] if tier == 'quick' else list(range(1, 65))
        for d in ds:
            out.append({'fn': 'QUOTIENT', 'd': d})
            out.append({'fn': 'QUOTIENT', 'd': -d})
        return out

    def build(self, e, p):
        if p['fn'] == 'MOD':
            return {'va': e.fresh_int('n'), 'vb': e.fresh_int('d')}
        return {'va': e.fresh_int('n', -(2 ** 52) + 1, 2 ** 52 - 1), 'vb': p['d']}

    def run(self, env, inp, p):
        return self.parse_with(env, '%s(va,vb)' % p['fn'], inp)

    def post(self, env, inp, out, p):
        n, d = zint(inp['va']), zint(inp['vb'])
        if not is_record(out):
            return False
        r = out['result']
        rz = as_intval(r)
        if p['fn'] == 'MOD':
            if out['error'] is not None:
                return And(out['error'] == '#DIV/0!', mkbool(d == 0))
            if rz is None:
                return False
            return mkbool(z3.And(d != 0, (n - rz) % d == 0, z3.If(d > 0, z3.And(rz >= 0, rz < d), z3.And(rz <= 0, rz > d))))
        if out['error'] is not None:
            return And(out['error'] == '#DIV/0!', mkbool(d == 0))
        if rz is None:
            return False
        # truncated quotient: sign-aware floor of |n|/|d|
        ad = z3.If(d < 0, -d, d)
        an = z3.If(n < 0, -n, n)
        q = an / ad
        want = z3.If((n < 0) != (d < 0), -q, q)
        return mkbool(z3.And(d != 0, rz == want))
