"""C11 - aggregates equal their definitions over exactly the selected items."""
import z3
from ..harness import Harness, register, Raised
from ..spec import And, Or, Not, Implies, Iff, tb
from ..values import SymInt, SymBool, SymFloat, SymStr, zint, mkint, mkbool, zbool, _floatval_nofork
from .. import engine as E
from .. import models
from .common import ok_result, err_is, any_error, is_record, isint, isnum, isstr, CODES, DIGITS

ERR8 = [c for c in CODES if c != '#ERROR!']
GROUPINGS = {
    1: ['F(va)', 'F({va})'],
    2: ['F(va,vb)', 'F({va,vb})', 'F({va},vb)'],
    3: ['F(va,vb,vc)', 'F({va,vb},vc)', 'F(va,{vb,vc})', 'F({va,vb,vc})'],
    4: ['F(va,vb,vc,vd)', 'F({va,vb},{vc,vd})', 'F(va,{vb,vc,vd})', 'F({va,vb,vc,vd})'],
}
NAMES = ['va', 'vb', 'vc', 'vd']
DELEGATING = {'AVERAGE': 'mean', 'MEDIAN': 'median', 'MODE': 'mode', 'VAR': 'variance', 'VAR.P': 'pvariance',
              'STDEV': 'stdev', 'STDEV.P': 'pstdev', 'GEOMEAN': 'geometric_mean', 'HARMEAN': 'harmonic_mean'}


def T(x):
    return x is True or (x is not False and bool(x))


def num_eq(r, want):
    if isinstance(r, (bool, SymBool)) or not isnum(r):
        return False
    return r == want


@register
class Simple(Harness):
    name = 'C11.simple'
    prop = 'C11'
    doc = 'SUM, MIN, MAX, COUNT, PRODUCT, LARGE equal their textbook definitions on integer items, for every grouping of the ' \
          'items into separate arguments and arrays'
    functions = ('mathtrig.SUM', 'mathtrig.PRODUCT', 'statistical.MIN', 'statistical.MAX', 'statistical.COUNT', 'statistical.LARGE',
                 'utils.iflatten', 'utils.inumbers')
    bounds = '1..3 items (quick) / 1..4 (thorough), any integers (|x| <= 1000 for PRODUCT); every grouping listed in GROUPINGS'
    outside = ('decimal items', 'lists longer than 4 (the statement goes to 40)')

    def cases(self, tier):
        ns = (1, 2, 3) if tier == 'quick' else (1, 2, 3, 4)
        out = []
        for fn in ('SUM', 'MIN', 'MAX', 'COUNT', 'PRODUCT'):
            for n in ns:
                if fn == 'PRODUCT' and n > 3:
                    continue
                for g in range(len(GROUPINGS[n])):
                    out.append({'fn': fn, 'n': n, 'g': g})
        for n in ns:
            out.append({'fn': 'LARGE', 'n': n, 'g': 0})
        return out

    def build(self, e, p):
        lim = 1000 if p['fn'] == 'PRODUCT' else None
        inp = {'xs': [e.fresh_int('x%d' % i, -lim if lim else None, lim) for i in range(p['n'])]}
        if p['fn'] == 'LARGE':
            inp['k'] = e.fresh_int('k', -2, p['n'] + 2)
        return inp

    def run(self, env, inp, p):
        vs = dict(zip(NAMES, inp['xs']))
        if p['fn'] == 'LARGE':
            vs['vk'] = inp['k']
            return self.parse_with(env, 'LARGE({%s},vk)' % ','.join(NAMES[:p['n']]), vs)
        return self.parse_with(env, GROUPINGS[p['n']][p['g']].replace('F(', p['fn'] + '('), vs)

    def post(self, env, inp, out, p):
        if not is_record(out):
            return False
        xs, n, fn = inp['xs'], p['n'], p['fn']
        r = out['result']
        if fn == 'LARGE':
            k = inp['k']
            cl = [Implies(Or(k < 1, k > n), any_error(out))]
            # k-th largest: value v with at least k items >= v and at least n-k+1 items <= v
            for kk in range(1, n + 1):
                conds = []
                if out['error'] is None and isint(r):
                    ge = sum([z3.If(zint(x) >= zint(r), 1, 0) for x in xs])
                    le = sum([z3.If(zint(x) <= zint(r), 1, 0) for x in xs])
                    member = z3.Or(*[zint(x) == zint(r) for x in xs])
                    conds = mkbool(z3.simplify(z3.And(member, ge >= kk, le >= n - kk + 1)))
                else:
                    conds = False
                cl.append(Implies(k == kk, conds))
            return And(*cl)
        if out['error'] is not None:
            return False
        if fn == 'SUM':
            return num_eq(r, sum(xs[1:], xs[0]))
        if fn == 'COUNT':
            return num_eq(r, n)
        if fn == 'PRODUCT':
            w = xs[0]
            for x in xs[1:]:
                w = w * x
            return num_eq(r, w)
        if not isint(r):
            return False
        rz = zint(r)
        member = z3.Or(*[zint(x) == rz for x in xs])
        bound = z3.And(*[(rz <= zint(x)) if fn == 'MIN' else (rz >= zint(x)) for x in xs])
        return mkbool(z3.simplify(z3.And(member, bound)))


@register
class Delegating(Harness):
    name = 'C11.delegating'
    prop = 'C11'
    doc = 'AVERAGE, MEDIAN, MODE, VAR(.P), STDEV(.P), GEOMEAN, HARMEAN hand exactly the numeric items, in flattening order, to ' \
          'the statistics routine whatever the grouping into arguments and arrays; AVEDEV = sum|x - mean| / n'
    functions = ('statistical.AVERAGE', 'statistical.MEDIAN', 'statistical.MODE', 'statistical.VAR', 'statistical.VAR_P',
                 'statistical.STDEV', 'statistical.STDEV_P', 'statistical.GEOMEAN', 'statistical.HARMEAN', 'statistical.AVEDEV',
                 'utils.inumbers', 'utils.iflatten')
    bounds = '2..3 items (quick) / 2..4 (thorough), any integers (positive for GEOMEAN / HARMEAN)'
    outside = ('the numeric definition of the statistics themselves (Python statistics module, trusted) and their symmetry',)
    stubs = ('statistics.* = uninterpreted function of the item sequence it receives (congruence: equal sequences, equal value) '
             'plus the documented StatisticsError conditions',)

    def cases(self, tier):
        ns = (2, 3) if tier == 'quick' else (2, 3, 4)
        out = []
        for fn in list(DELEGATING) + ['AVEDEV']:
            for n in ns:
                for g in range(len(GROUPINGS[n])):
                    out.append({'fn': fn, 'n': n, 'g': g})
        return out

    def build(self, e, p):
        lo = 1 if p['fn'] in ('GEOMEAN', 'HARMEAN') else None
        return {'xs': [e.fresh_int('x%d' % i, lo, None) for i in range(p['n'])]}

    def run(self, env, inp, p):
        vs = dict(zip(NAMES, inp['xs']))
        return self.parse_with(env, GROUPINGS[p['n']][p['g']].replace('F(', p['fn'] + '('), vs)

    def post(self, env, inp, out, p):
        if not ok_result(out):
            return False
        xs, fn = inp['xs'], p['fn']
        r = out['result']
        import statistics
        if fn == 'AVEDEV':
            if env.symbolic:
                mean = models.PY_MODELS[statistics.mean](list(xs))
            else:
                mean = statistics.mean(xs)
            tot = 0
            for x in xs:
                tot = tot + abs(x - mean)
            return num_eq(r, tot / len(xs))
        stat = DELEGATING[fn]
        if env.symbolic:
            want = models.PY_MODELS[getattr(statistics, stat)](list(xs))
        else:
            try:
                want = getattr(statistics, stat)(list(xs))
            except statistics.StatisticsError:
                return False
        return num_eq(r, want)


@register
class ErrorItems(Harness):
    name = 'C11.error_items'
    prop = 'C11'
    doc = 'an error value among the items of SUM, PRODUCT, AVERAGE, MIN, MAX or MEDIAN makes the result that error'
    functions = ('utils.inumbers', 'Parser.call_function')
    bounds = '2..3 items, the error (any of 8 codes) at any position, flat or inside an array; other items symbolic integers'

    def cases(self, tier):
        out = []
        for fn in ('SUM', 'PRODUCT', 'AVERAGE', 'MIN', 'MAX', 'MEDIAN'):
            for n in (2, 3):
                for pos in range(n):
                    for g in range(len(GROUPINGS[n])):
                        out.append({'fn': fn, 'n': n, 'pos': pos, 'g': g})
        return out

    def run(self, env, inp, p):
        e = E.cur() if env.symbolic else None
        if env.symbolic:
            inp['code'] = ERR8[e.choose(len(ERR8))]
            inp['xs'] = [e.fresh_int('x%d' % i, -1000, 1000) for i in range(p['n'])]
        vals = list(inp['xs'])
        vals[p['pos']] = env.error_by_code(inp['code'])
        return self.parse_with(env, GROUPINGS[p['n']][p['g']].replace('F(', p['fn'] + '('), dict(zip(NAMES, vals)))

    def post(self, env, inp, out, p):
        return err_is(out, inp['code'])


CRIT_OPS = ['>', '<', '=', '>=', '<=', '<>', '']
PYCMP = {'>': lambda a, b: a > b, '<': lambda a, b: a < b, '=': lambda a, b: a == b, '>=': lambda a, b: a >= b,
         '<=': lambda a, b: a <= b, '<>': lambda a, b: a != b, '': lambda a, b: a == b}


KFORMS = ('dec', 'dotlead', 'negdec', 'exp', 'trail')


def crit_text(env, op, num):
    s = models.m_str(num) if env.symbolic else str(num)
    return op + s if op else s


@register
class Criteria(Harness):
    name = 'C11.criteria'
    prop = 'C11'
    doc = 'SUMIF, COUNTIF, AVERAGEIF, SUMIFS, AVERAGEIFS, MAXIFS equal the statistic over exactly the items whose criteria ' \
          'cells satisfy every criterion (operator + number, or a bare number meaning equality); 0 for empty sums / counts / ' \
          'maxima, an error for empty averages'
    functions = ('mathtrig.SUMIF', 'mathtrig.SUMIFS', 'statistical.COUNTIF', 'statistical.AVERAGEIF', 'statistical.AVERAGEIFS',
                 'statistical.MAXIFS', 'utils.parse_criteria', 'utils.REGEX_CRITERIA', 'helper.number.to_number')
    bounds = 'lists of 1..3 items (quick) / 1..4 (thorough) of integers |x| <= 999, criteria ranges of equal length, criterion = ' \
             'one of 6 operators or none + an integer |c| <= 999 rendered as text; one criterion (all six functions), two and three criteria (the *IFS); the criterion number also written d.d, .d, -d.d, ' \
             'd e d and dd. (symbolic digits) against cells |c| <= 12'
    outside = ('decimal numbers in items', 'criteria ranges of unequal length')

    def cases(self, tier):
        ns = (1, 2, 3) if tier == 'quick' else (1, 2, 3, 4)
        out = []
        for fn in ('SUMIF', 'COUNTIF', 'AVERAGEIF', 'SUMIFS', 'AVERAGEIFS', 'MAXIFS'):
            for n in ns:
                for op in CRIT_OPS:
                    out.append({'fn': fn, 'n': n, 'op': op, 'two': False})
        for fn in ('SUMIFS', 'AVERAGEIFS', 'MAXIFS'):
            for n in ns[:-1] if tier == 'quick' else ns:
                for op in ('>', '=', '<='):
                    for op2 in ('<', '<>'):
                        out.append({'fn': fn, 'n': n, 'op': op, 'two': True, 'op2': op2})
            # the criterion number written as a decimal, with a leading point, negative, or in exponent form
            if fn == 'SUMIFS':
                for form in KFORMS:
                    for op in CRIT_OPS:
                        out.append({'fn': fn, 'n': 2, 'op': op, 'two': False, 'form': form})
                        if op in ('>', '=', None, ''):
                            out.append({'fn': 'COUNTIF', 'n': 2, 'op': op, 'two': False, 'form': form})
            # three criteria pairs
            for n in (2,) if tier == 'quick' else (2, 3):
                for op, op2, op3 in (('>', '<', '<>'), ('=', '<=', '>='), ('<>', '>', '=')):
                    out.append({'fn': fn, 'n': n, 'op': op, 'two': True, 'op2': op2, 'op3': op3})
        return out

    def build(self, e, p):
        n = p['n']
        lim = 9 if p.get('op3') else 999      # three criteria: one-digit criterion numbers keep the rendering forks small
        mk = lambda nm: e.fresh_int(nm, -lim, lim)
        inp = {'items': [mk('x%d' % i) for i in range(n)], 'cells': [mk('c%d' % i) for i in range(n)], 'k': mk('k')}
        if p.get('form'):
            d = lambda nm: e.fresh_str(nm, 1, alphabet=DIGITS).cps
            lit = lambda t: tuple(ord(c) for c in t)
            inp['ktext'] = SymStr({'dec': lambda: d('ka') + lit('.') + d('kb'), 'dotlead': lambda: lit('.') + d('kb'),
                                   'negdec': lambda: lit('-') + d('ka') + lit('.') + d('kb'), 'exp': lambda: d('ka') + lit('e') + d('kb'),
                                   'trail': lambda: d('ka') + d('kb') + lit('.')}[p['form']]())
            inp['cells'] = [e.fresh_int('c%d' % i, -12, 12) for i in range(n)]
        if p['two']:
            inp['cells2'] = [mk('d%d' % i) for i in range(n)]
            inp['k2'] = mk('k2')
        if p.get('op3'):
            inp['cells3'] = [mk('e%d' % i) for i in range(n)]
            inp['k3'] = mk('k3')
        return inp

    def run(self, env, inp, p):
        fn = p['fn']
        vs = {'vitems': inp['items'], 'vcells': inp['cells'], 'vcrit': crit_text(env, p['op'], inp['k'])}
        if p.get('form'):
            vs['vcrit'] = (p['op'] + inp['ktext']) if p['op'] else inp['ktext']
        if fn in ('SUMIF', 'COUNTIF'):
            # single-range forms select on the items themselves
            return self.parse_with(env, '%s(vcells,vcrit)' % fn, vs)
        if fn == 'AVERAGEIF':
            return self.parse_with(env, 'AVERAGEIF(vcells,vcrit,vitems)', vs)
        if p['two']:
            vs['vcellsb'] = inp['cells2']
            vs['vcritb'] = crit_text(env, p['op2'], inp['k2'])
            if p.get('op3'):
                vs['vcellsc'] = inp['cells3']
                vs['vcritc'] = crit_text(env, p['op3'], inp['k3'])
                return self.parse_with(env, '%s(vitems,vcells,vcrit,vcellsb,vcritb,vcellsc,vcritc)' % fn, vs)
            return self.parse_with(env, '%s(vitems,vcells,vcrit,vcellsb,vcritb)' % fn, vs)
        return self.parse_with(env, '%s(vitems,vcells,vcrit)' % fn, vs)

    def post(self, env, inp, out, p):
        if not is_record(out):
            return False
        fn, n = p['fn'], p['n']
        items = inp['cells'] if fn in ('SUMIF', 'COUNTIF') else inp['items']
        k = inp['k']
        if p.get('form'):
            k = models.m_float(inp['ktext']) if env.symbolic else float(inp['ktext'])
        sel = [PYCMP[p['op']](c, k) for c in inp['cells']]
        if p['two']:
            sel = [And(s, PYCMP[p['op2']](d, inp['k2'])) for s, d in zip(sel, inp['cells2'])]
        if p.get('op3'):
            sel = [And(s, PYCMP[p['op3']](d, inp['k3'])) for s, d in zip(sel, inp['cells3'])]
        zsel = [zbool(s) for s in sel]
        cnt = sum([z3.If(s, 1, 0) for s in zsel])
        tot = sum([z3.If(s, zint(x), 0) for s, x in zip(zsel, items)])
        r = out['result']
        none = z3.simplify(cnt == 0)
        if fn in ('SUMIF', 'SUMIFS'):
            return And(out['error'] is None, isint(r) and mkbool(z3.simplify(zint(r) == tot)))
        if fn == 'COUNTIF':
            return And(out['error'] is None, isint(r) and mkbool(z3.simplify(zint(r) == cnt)))
        if fn == 'MAXIFS':
            if out['error'] is not None or not isint(r):
                return False
            rz = zint(r)
            member = z3.Or(*[z3.And(s, zint(x) == rz) for s, x in zip(zsel, items)])
            bound = z3.And(*[z3.Implies(s, rz >= zint(x)) for s, x in zip(zsel, items)])
            return mkbool(z3.simplify(z3.If(none, rz == 0, z3.And(member, bound))))
        # averages: error when nothing is selected, else total / count (float division of the exact integers)
        if out['error'] is not None:
            return mkbool(none)
        if isinstance(r, (bool, SymBool)) or not isnum(r):
            return False
        rr = _floatval_nofork(r)
        # |r - tot/cnt| within double rounding: r * cnt == tot up to 1e-9 relative
        exact_ok = z3.And(z3.Not(none), z3.ToReal(cnt) * rr - z3.ToReal(tot) <= z3.RealVal('1/1000000'),
                          z3.ToReal(tot) - z3.ToReal(cnt) * rr <= z3.RealVal('1/1000000'))
        return mkbool(z3.simplify(exact_ok))


@register
class Wildcards(Harness):
    name = 'C11.wildcards'
    prop = 'C11'
    doc = 'COUNTIF / SUMIFS with a text criterion containing * and ? select exactly the text cells matching the pattern'
    functions = ('utils.parse_criteria', 'statistical.COUNTIF', 'mathtrig.SUMIFS')
    bounds = 'text cells of length 1..3 (thorough 0..4) over lower-case letters a..c, pattern of length 1..4 (thorough 1..5) over {a,b,*,?} containing a wildcard; 1..2 cells'
    outside = ('patterns containing [ or non-letter literal characters', 'case-insensitive matching')

    def cases(self, tier):
        out = []
        for fn in ('COUNTIF', 'SUMIFS'):
            for n in (1, 2):
                for lp in ((1, 2, 3, 4) if tier == 'quick' else (1, 2, 3, 4, 5)):
                    for lc in ((0, 1, 2, 3, 4) if tier == 'thorough' else (1, 2, 3)):
                        if n == 2 and lp + lc > 6:
                            continue
                        out.append({'fn': fn, 'n': n, 'lp': lp, 'lc': lc})
        return out

    def build(self, e, p):
        cells = [e.fresh_str('c%d' % i, p['lc'], alphabet=[(97, 99)]) if p['lc'] else '' for i in range(p['n'])]
        pat = e.fresh_str('p', p['lp'], alphabet=[(97, 98), (42, 42), (63, 63)])
        e.add(z3.Or(*[z3.Or(c == 42, c == 63) for c in pat.cps]))
        return {'cells': cells, 'pat': pat, 'items': [e.fresh_int('x%d' % i, -99, 99) for i in range(p['n'])]}

    def run(self, env, inp, p):
        vs = {'vcells': inp['cells'], 'vpat': inp['pat'], 'vitems': inp['items']}
        if p['fn'] == 'COUNTIF':
            return self.parse_with(env, 'COUNTIF(vcells,vpat)', vs)
        return self.parse_with(env, 'SUMIFS(vitems,vcells,vpat)', vs)

    def post(self, env, inp, out, p):
        if not ok_result(out):
            return False
        from ..symre import glob_match
        import fnmatch
        hits = []
        for c in inp['cells']:
            hits.append(T(glob_match(c, inp['pat'])) if env.symbolic else fnmatch.fnmatchcase(c, inp['pat']))
        r = out['result']
        if p['fn'] == 'COUNTIF':
            return isint(r) and r == sum(1 for h in hits if h)
        want = 0
        for h, x in zip(hits, inp['items']):
            if h:
                want = want + x
        return isint(r) and r == want
