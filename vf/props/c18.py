"""C18 - lookup functions return the addressed element or an error, never another one."""
import z3
from ..harness import Harness, register, Raised
from ..spec import And, Or, Not, Implies, Iff, tb, same_type_eq
from ..values import SymInt, SymBool, SymStr, zint, mkint, mkbool, zbool
from .. import engine as E
from .common import ok_result, err_is, any_error, is_record, isint, isstr


def eq_list(r, want):
    if not isinstance(r, list) or len(r) != len(want):
        return False
    return And(*[(eq_list(x, w) if isinstance(w, list) else (isint(x) and x == w)) for x, w in zip(r, want)])


@register
class Choose(Harness):
    name = 'C18.choose'
    prop = 'C18'
    doc = 'CHOOSE(i, v1..vn) = vi for 1 <= i <= n and an error otherwise'
    functions = ('lookupandreference.CHOOSE',)
    bounds = 'n = 1..7 values (symbolic integers; every subset of the values may instead be blank - a variable holding None or an ' \
             'empty argument slot - for n <= 4, one blank position for larger n), index any integer'
    outside = ('an index that is a float (the result of 4/2): the library answers #ERROR!, an error and not another element; the statement quantifies over integer indices',)

    def cases(self, tier):
        out = []
        for n in (1, 2, 3, 4, 5, 6, 7):
            out.append({'n': n, 'blank': [], 'how': 'var'})
            import itertools
            subsets = [list(c) for r in range(1, n + 1) for c in itertools.combinations(range(n), r)] if n <= 4 else [[k] for k in range(n)]
            for b in subsets:
                out.append({'n': n, 'blank': b, 'how': 'var'})
                if not any(k + 1 in b for k in b):
                    out.append({'n': n, 'blank': b, 'how': 'slot'})     # (two adjacent empty slots are not in the grammar: C05)
        return out

    def build(self, e, p):
        i = e.fresh_int('i')
        return {'i': i, 'vs': [None if k in p['blank'] else e.fresh_int('v%d' % k) for k in range(p['n'])]}

    def run(self, env, inp, p):
        names = ['v%s' % 'abcdefg'[k] for k in range(p['n'])]
        vs = dict(zip(names, inp['vs']))
        vs['vi'] = inp['i']
        if p['how'] == 'slot':
            names = ['' if k in p['blank'] else nm for k, nm in enumerate(names)]      # CHOOSE(i,a,,c): an empty slot is a blank value
        return self.parse_with(env, 'CHOOSE(vi,%s)' % ','.join(names), vs)

    def post(self, env, inp, out, p):
        if not is_record(out):
            return False
        i = inp['i']
        cl = []
        for k in range(p['n']):
            if inp['vs'][k] is None:
                # the k-th value is blank: a blank (or the 0 a blank stands for) comes back, never a neighbour's value
                cl.append(Implies(i == k + 1, And(out['error'] is None, out['result'] is None or (isint(out['result']) and out['result'] == 0))))
            else:
                cl.append(Implies(i == k + 1, And(out['error'] is None, isint(out['result']) and out['result'] == inp['vs'][k])))
        cl.append(Implies(Or(i < 1, i > p['n']), any_error(out)))
        return And(*cl)


@register
class Index(Harness):
    name = 'C18.index'
    prop = 'C18'
    doc = 'INDEX(array, r, c): the element at (r, c) inside the array (a whole row / column when the other index is 0 or ' \
          'omitted), an error outside -- never another element; arrays given as literals and as host variables'
    functions = ('lookupandreference.INDEX', 'grammarparser.parser.p_array', 'grammarparser.parser.p_expseq_semicolon',
                 'grammarparser.parser.p_expseq_comma')
    bounds = 'one-dimensional arrays of 1..3 and two-dimensional arrays up to 3x3 (quick) / 6x6 (thorough) of symbolic integers; ' \
             'row and column indices any integers in -10..size+10, 0, or omitted'
    outside = ('arrays larger than the bound (8x8 in the statement)', 'INDEX of a 1-D array with two indices', 'area_num')

    def cases(self, tier):
        mx = 3 if tier == 'quick' else 6
        out = []
        # the index given as numeric text (with sign): one- and two-dimensional host arrays
        for txt in ('numtext', 'negnumtext'):
            out.append({'dim': 1, 'R': 1, 'C': 3, 'src': 'var', 'form': 'r', 'itext': txt})
            out.append({'dim': 2, 'R': 3, 'C': 2, 'src': 'var', 'form': 'rc', 'itext': txt})
        for src in ('lit', 'var'):
            for n in range(1, mx + 1):
                out.append({'dim': 1, 'R': 1, 'C': n, 'src': src, 'form': 'r'})
            for R in range(1, mx + 1):
                for C in range(1, mx + 1):
                    if src == 'lit' and (R != 2 or C < 2):
                        continue     # the literal syntax has exactly two rows of >= 2 items (C05); other shapes come as host values
                    for form in ('rc', 'r', 'r0', '0c'):
                        out.append({'dim': 2, 'R': R, 'C': C, 'src': src, 'form': form})
        return out

    def build(self, e, p):
        arr = [[e.fresh_int('a%d%d' % (i, j)) for j in range(p['C'])] for i in range(p['R'])]
        if p.get('itext'):
            from .common import numtext
            rt, rv = numtext(e, 'r', 1, sign='-' if p['itext'] == 'negnumtext' else None)
            return {'arr': arr, 'r': rv, 'rtext': rt, 'c': e.fresh_int('c', 1, p['C'])}
        return {'arr': arr, 'r': e.fresh_int('r', -10, p['R'] + 10 if p['dim'] == 2 else p['C'] + 10),
                'c': e.fresh_int('c', -10, p['C'] + 10)}

    def run(self, env, inp, p):
        arr = inp['arr']
        vs = {'vr': inp.get('rtext', inp['r']), 'vc': inp['c']}
        if p['src'] == 'var':
            vs['varr'] = arr[0] if p['dim'] == 1 else arr
            atext = 'varr'
        else:
            rows = []
            for i, row in enumerate(arr):
                names = []
                for j, v in enumerate(row):
                    n = 'w%s%s' % ('abcdef'[i], 'abcdef'[j])
                    vs[n] = v
                    names.append(n)
                rows.append(','.join(names))
            atext = '{%s}' % ';'.join(rows)
        f = {'rc': 'INDEX(%s,vr,vc)', 'r': 'INDEX(%s,vr)', 'r0': 'INDEX(%s,vr,0)', '0c': 'INDEX(%s,0,vc)'}[p['form']] % atext
        return self.parse_with(env, f, vs)

    def post(self, env, inp, out, p):
        if not is_record(out):
            return False
        arr, r, c = inp['arr'], inp['r'], inp['c']
        R, C = p['R'], p['C']
        res = out['result']
        cl = []
        if p['dim'] == 1:
            row = arr[0]
            for k in range(C):
                cl.append(Implies(r == k + 1, And(out['error'] is None, isint(res) and res == row[k])))
            cl.append(Implies(Or(r < 0, r > C), any_error(out)))
            # index 0 of a one-dimensional array: the whole array or an error, never an element
            cl.append(Implies(r == 0, Or(any_error(out), And(out['error'] is None, eq_list(res, row)))))
            return And(*cl)
        form = p['form']
        if form == 'rc':
            for i in range(R):
                for j in range(C):
                    cl.append(Implies(And(r == i + 1, c == j + 1), And(out['error'] is None, isint(res) and res == arr[i][j])))
            for i in range(R):
                cl.append(Implies(And(r == i + 1, c == 0), And(out['error'] is None, eq_list(res, arr[i]))))
            for j in range(C):
                cl.append(Implies(And(r == 0, c == j + 1), And(out['error'] is None, eq_list(res, [row[j] for row in arr]))))
            cl.append(Implies(Or(r < 0, r > R, c < 0, c > C), any_error(out)))
        elif form in ('r', 'r0'):
            for i in range(R):
                cl.append(Implies(r == i + 1, And(out['error'] is None, eq_list(res, arr[i]))))
            cl.append(Implies(Or(r < 0, r > R), any_error(out)))
        else:
            for j in range(C):
                cl.append(Implies(c == j + 1, And(out['error'] is None, eq_list(res, [row[j] for row in arr]))))
            cl.append(Implies(Or(c < 0, c > C), any_error(out)))
        return And(*cl)


@register
class Match(Harness):
    name = 'C18.match'
    prop = 'C18'
    doc = 'MATCH(x, array, t): t=0 first position equal to x (text case-insensitively with * and ?), t=1 on ascending arrays the ' \
          'position of the largest item <= x, t=-1 on descending arrays of the smallest item >= x, else #N/A; INDEX(a, MATCH(x,a,0)) = x'
    functions = ('lookupandreference.MATCH', 'lookupandreference.INDEX')
    bounds = 'arrays of 1..6 (thorough 1..8) symbolic integers (sorted with duplicates for t = +-1), strictly monotone arrays of 8, 9, 12, 16, 17 ' \
             '(thorough up to 33) items; text arrays of 1..3 items of 1..2 ASCII letters ' \
             'with a lookup pattern of 1..3 characters from letters * ?'
    outside = ('wildcard patterns containing [', 'non-ASCII text (case folding)')

    def cases(self, tier):
        out = []
        for n in (1, 2, 3, 4, 5, 6) + (() if tier == 'quick' else (7, 8)):
            for t in (0, 1, -1):
                out.append({'kind': 'int', 'n': n, 't': t})
        # longer arrays: strictly monotone (the path classes of a scan with ties grow as 3^n)
        for n in (8, 9, 12, 16, 17) if tier == 'quick' else (9, 10, 12, 16, 17, 24, 32, 33):
            for t in (1, -1):
                out.append({'kind': 'int', 'n': n, 't': t, 'strict': 1})
        lens = (1, 2)
        for n in (1, 2) if tier == 'quick' else (1, 2, 3):
            for lp in (1, 2, 3):
                for li in lens if tier == 'quick' else (1, 2, 3):
                    out.append({'kind': 'text', 'n': n, 't': 0, 'lp': lp, 'li': li})
        return out

    def build(self, e, p):
        if p['kind'] == 'int':
            arr = [e.fresh_int('a%d' % i) for i in range(p['n'])]
            for i in range(p['n'] - 1):
                if p['t'] == 1:
                    e.add(arr[i].z < arr[i + 1].z if p.get('strict') else arr[i].z <= arr[i + 1].z)
                elif p['t'] == -1:
                    e.add(arr[i].z > arr[i + 1].z if p.get('strict') else arr[i].z >= arr[i + 1].z)
            return {'arr': arr, 'x': e.fresh_int('x')}
        letters = [(65, 90), (97, 122)]
        arr = [e.fresh_str('a%d' % i, p['li'], alphabet=letters) for i in range(p['n'])]
        x = e.fresh_str('x', p['lp'], alphabet=letters + [(42, 42), (63, 63)])
        return {'arr': arr, 'x': x}

    def run(self, env, inp, p):
        vs = {'varr': inp['arr'], 'vx': inp['x']}
        m = self.parse_with(env, 'MATCH(vx,varr,%d)' % p['t'], vs)
        if p['t'] == 0 and p['kind'] == 'int':
            return [m, self.parse_with(env, 'INDEX(varr,MATCH(vx,varr,0))', vs)]
        return [m]

    def post(self, env, inp, out, p):
        if isinstance(out, Raised) or not all(is_record(o) for o in out):
            return False
        arr, x, t, n = inp['arr'], inp['x'], p['t'], p['n']
        m = out[0]
        res = m['result']
        cl = []
        if p['kind'] == 'text':
            from ..symre import glob_match
            import fnmatch
            hits = []
            for it in arr:
                if env.symbolic:
                    hits.append(glob_match(it.lower(), x.lower()))
                else:
                    hits.append(fnmatch.fnmatchcase(it.lower(), x.lower()))
            seen = True
            for k in range(n):
                cl.append(Implies(And(seen, hits[k]), And(m['error'] is None, isint(res) and res == k + 1)))
                seen = And(seen, Not(hits[k]))
            cl.append(Implies(seen, err_is(m, '#N/A')))
            return And(*cl)
        if t == 0:
            seen = True
            for k in range(n):
                hit = (arr[k] == x)
                cl.append(Implies(And(seen, hit), And(m['error'] is None, isint(res) and res == k + 1)))
                seen = And(seen, Not(hit))
            cl.append(Implies(seen, err_is(m, '#N/A')))
            occurs = Not(seen)
            im = out[1]
            cl.append(Implies(occurs, And(im['error'] is None, isint(im['result']) and im['result'] == x)))
            return And(*cl)
        # t = 1 (ascending) / -1 (descending): some position holding the best candidate value
        ok = (lambda v: v <= x) if t == 1 else (lambda v: v >= x)
        none = And(*[Not(ok(v)) for v in arr])
        cl.append(Implies(none, err_is(m, '#N/A')))
        better = (lambda u, v: u > v) if t == 1 else (lambda u, v: u < v)
        for k in range(n):
            best_k = And(ok(arr[k]), *[Or(Not(ok(arr[j])), Not(better(arr[j], arr[k]))) for j in range(n) if j != k])
            # if position k+1 is returned it must hold a best candidate
            cl.append(Implies(And(m['error'] is None, isint(res) and res == k + 1), best_k))
        cl.append(Implies(Not(none), And(m['error'] is None, isint(res) and And(res >= 1, res <= n))))
        return And(*cl)
