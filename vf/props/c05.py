"""C05 - lexical conventions: literals, whitespace, separators, case, empty arguments."""
import itertools
import z3
from ..harness import Harness, register, Raised
from ..spec import And, Or, Not, Implies, tb, same_type_eq
from ..values import SymInt, SymBool, SymStr, SymFloat, zint, mkint, mkbool, cps_of, zcp, mkstr, in_ranges
from .. import engine as E
from .. import symre
from .common import ok_result, err_is, is_record, isint, isstr, isnum, DIGITS, LETTERS


def digits_value(cps):
    v = z3.IntVal(0)
    for c in cps:
        v = v * 10 + (zcp(c) - 48)
    return mkint(z3.simplify(v))


class _Sym(Harness):
    prop = 'C05'
    needs_ply = True
    max_decisions = 20000
    case_timeout_s = {'quick': 200, 'thorough': 2000}


@register
class NumericLiterals(_Sym):
    name = 'C05.numbers'
    doc = 'a numeric literal (digits, digits.digits, .digits, integer%, integer^integer) evaluates to exactly the number it spells'
    functions = ('grammarparser.lexer.t_NUMBER', 'grammarparser.lexer.t_DECIMAL', 'grammarparser.lexer.t_PERCENT',
                 'grammarparser.lexer.t_CARET', 'grammarparser.parser.p_expression_number', 'helper.number.to_number')
    bounds = 'digit strings (symbolic text, leading zeros included) of 1..6 digits (quick) / 1..9 (thorough) for integers and ' \
             'percentages, integers of 12, 16, 17, 20 (thorough: 24, 32) digits, 1..4 / 1..6 digits per part for decimals; d^d with a base of 1..2 digits (thorough: 1..3) and an exponent ' \
             'of one digit (thorough: also two digits, 00..29); decimal values compared as the correctly rounded quotient ' \
             'digits / 10^k (what float() of the spelling is)'

    def cases(self, tier):
        out = []
        th = tier == 'thorough'
        for a in range(1, 10 if th else 7):
            out.append({'form': 'int', 'a': a, 'b': 0})
            out.append({'form': 'pct', 'a': a, 'b': 0})
        for a in (12, 16, 17, 20) + ((24, 32) if th else ()):
            # beyond 2^53: an integer literal is still exactly the integer it spells
            out.append({'form': 'int', 'a': a, 'b': 0})
        out.append({'form': 'pow', 'a': 17, 'b': 1})
        ds = range(1, 7 if th else 5)
        for a in ds:
            for b in ds:
                out.append({'form': 'dec', 'a': a, 'b': b})
        for b in range(1, 9 if th else 7):
            out.append({'form': 'dot', 'a': 0, 'b': b})
        for a in (1, 2, 3) if th else (1, 2):
            out.append({'form': 'pow', 'a': a, 'b': 1})
        if th:
            for a in (1, 2):
                out.append({'form': 'pow', 'a': a, 'b': 2})
        return out

    def build(self, e, p):
        a = e.fresh_str('a', p['a'], alphabet=DIGITS) if p['a'] else ''
        b = e.fresh_str('b', p['b'], alphabet=DIGITS) if p['b'] else ''
        if p['form'] == 'pow' and p['b'] == 2:
            e.add(zcp(b.cps[0]) <= 50)        # exponents 00..29
        return {'a': a, 'b': b}

    def text(self, inp, p):
        a, b = inp['a'], inp['b']
        return {'int': lambda: a, 'pct': lambda: a + '%', 'dec': lambda: a + '.' + b, 'dot': lambda: '.' + b, 'pow': lambda: a + '^' + b}[p['form']]()

    def run(self, env, inp, p):
        return env.Parser().parse(self.text(inp, p))

    def post(self, env, inp, out, p):
        if not ok_result(out):
            return False
        r = out['result']
        if isinstance(r, (bool, SymBool)) or not isnum(r):
            return False
        va = digits_value(cps_of(inp['a'])) if p['a'] else 0
        vb = digits_value(cps_of(inp['b'])) if p['b'] else 0
        f = p['form']
        if f == 'int':
            return And(isint(r), r == va)
        if f == 'pct':
            return r == va / 100
        if f in ('dec', 'dot'):
            k = p['b']
            fx = getattr(r, 'fx', None)
            if env.symbolic and fx is not None and fx[0] == 'addq':
                # the tree computed fl(i + fl(x / y)): under the fl abstraction equality with the correctly rounded
                # N / 10^k is undecidable either way, so - when i, x, y are the two digit strings' values and 10^k - the
                # claim is posed exactly in QF_FP over bit-vector copies of the digits (Int2BV bridging returns unknown)
                rm, F = z3.RNE(), z3.Float64()
                if E.cur().must(z3.And(fx[1] == zint(va), fx[2] == zint(vb), fx[3] == 10 ** k)):
                    def bvval(cps):
                        v = z3.BitVecVal(0, 64)
                        for c in cps:
                            dg = z3.BitVecVal(9, 64)
                            for j in range(8, -1, -1):
                                dg = z3.If(zcp(c) == 48 + j, z3.BitVecVal(j, 64), dg)
                            v = v * 10 + dg
                        return v
                    ba, bb = bvval(cps_of(inp['a'])), bvval(cps_of(inp['b']))
                    fp = lambda t: z3.fpSignedToFP(rm, t, F)
                    fd = z3.FPVal(float(10 ** k), F)
                    got = z3.fpAdd(rm, fp(ba), z3.fpDiv(rm, fp(bb), fd))
                    return mkbool(z3.fpEQ(got, z3.fpDiv(rm, fp(ba * (10 ** k) + bb), fd)))
            return r == (va * 10 ** k + vb) / 10 ** k
        from ..values import concretize_int
        kb = concretize_int(vb, 0, 29, 'exponent') if env.symbolic else vb
        return r == va ** kb


@register
class QuotedLiterals(_Sym):
    name = 'C05.strings'
    doc = 'a quoted literal evaluates to exactly the characters between its quotes'
    functions = ('grammarparser.lexer.t_STRING', 'grammarparser.parser.p_expression_string')
    bounds = 'bodies of 0..5 (quick) / 0..8 (thorough) arbitrary code points other than the delimiting quote; both quote kinds'

    def cases(self, tier):
        return [{'q': q, 'len': n} for q in (34, 39) for n in range(0, 6 if tier == 'quick' else 9)]

    def build(self, e, p):
        if p['len'] == 0:
            return {'body': ''}
        body = e.fresh_str('b', p['len'])
        for c in body.cps:
            e.add(c != p['q'])
        return {'body': body}

    def run(self, env, inp, p):
        q = chr(p['q'])
        return env.Parser().parse(q + inp['body'] + q)

    def post(self, env, inp, out, p):
        return And(ok_result(out), isstr(out['result']) and out['result'] == inp['body'])


WS_SKELETONS = [
    ['SUM(', 'va', ',', '2', ')', '*', '3'],
    ['va', '+', 'vb'],
    ['IF(', 'va', '>', '1', ';', '"x y"', ';', 'vb', ')'],
    ['{', '1', ',', 'va', '}'],
    ['-', 'va', '&', '"a"'],
    ['A1', ':', 'B2'],
    ['(', 'va', '-', 'vb', ')', '/', '4'],
    ['va', '<=', 'vb'],
    ['IFERROR(', '#N/A', ',', '1', ')'],
    ['$A$1', '+', 'b2'],
    ['va', '<>', 'vb'],
    ['SUM(', 'MAX(', 'va', ',', '1', ')', ',', 'vb', ')'],
    ['"a b"', '&', "'c d'"],
    ['-', '(', 'va', ')'],
    ['{', '1', ',', '2', ';', '3', ',', '4', '}'],
    ['va', '=', 'TRUE'],
]


@register
class Whitespace(_Sym):
    name = 'C05.whitespace'
    doc = 'whitespace between tokens (other than between a function name and its opening parenthesis) never changes the outcome'
    functions = ('grammarparser.lexer.t_WHITESPACE', 'ply.lex.Lexer.token')
    bounds = '%d formula skeletons; a symbolic whitespace string over every character the lexer\'s \\s class accepts: of length ' \
             '1..2 at one token boundary at a time (every boundary in turn), of length 1 at every pair of boundaries, and at ALL ' \
             'boundaries at once; thorough: also every triple of boundaries and length 3; variable values symbolic integers' % len(WS_SKELETONS)
    outside = ('whitespace strings longer than 3',)

    def cases(self, tier):
        out = []
        for i, sk in enumerate(WS_SKELETONS):
            for pos in range(0, len(sk) + 1):
                for n in (1, 2):
                    out.append({'sk': i, 'pos': [pos], 'n': n})
            for a, b in itertools.combinations(range(len(sk) + 1), 2):
                out.append({'sk': i, 'pos': [a, b], 'n': 1})
            out.append({'sk': i, 'pos': list(range(len(sk) + 1)), 'n': 1})
            if tier == 'thorough':
                for pos in range(0, len(sk) + 1):
                    out.append({'sk': i, 'pos': [pos], 'n': 3})
                for t in itertools.combinations(range(len(sk) + 1), 3):
                    out.append({'sk': i, 'pos': list(t), 'n': 1})
        return out

    def build(self, e, p):
        ws_ranges = symre._cat_ranges('SPACE')
        ws = []
        for k in range(len(p['pos'])):
            ws.append(e.fresh_str('w%d' % k, p['n'], alphabet=ws_ranges))
        return {'ws': ws, 'a': e.fresh_int('a', -50, 50), 'b': e.fresh_int('b', -50, 50)}

    def run(self, env, inp, p):
        sk = WS_SKELETONS[p['sk']]
        text = ''
        plain = ''.join(sk)
        k = 0
        for i, tok in enumerate(sk):
            if i in p['pos']:
                text = text + inp['ws'][k]
                k += 1
            text = text + tok
        if len(sk) in p['pos']:
            text = text + inp['ws'][k]

        def go(t):
            P = env.Parser()
            P.set_variable('va', inp['a'])
            P.set_variable('vb', inp['b'])
            P.on('callCellValue', lambda cell, s: s(inp['a']))
            P.on('callRangeValue', lambda a, b, s: s([inp['a'], inp['b']]))
            return P.parse(t)
        return [go(plain), go(text)]

    def post(self, env, inp, out, p):
        if isinstance(out, Raised) or not all(is_record(o) for o in out):
            return False
        a, b = out
        return And(a['error'] == b['error'], same_type_eq(a['result'], b['result']))


SEPS = {'comma': ',', 'semi': ';', 'back': '\\'}


@register
class Slots(Harness):
    name = 'C05.slots'
    prop = 'C05'
    doc = 'an accepted call passes exactly one argument per separator-delimited slot, in order, an omitted slot arriving as ' \
          'blank, whichever of , ; \\ separates them; the three separators give the same outcome'
    functions = ('grammarparser.parser.p_expseq_comma', 'grammarparser.parser.p_expseq_semicolon', 'grammarparser.parser.p_expseq_backslash',
                 'grammarparser.parser.p_expression_wargs', 'Parser.call_function')
    bounds = 'every present/absent pattern of 1..6 slots (quick) / 1..8 (thorough) x 3 separators; present slots hold symbolic ' \
             'integers or (patterns of up to 4 slots) the separator character itself as a text value'

    def cases(self, tier):
        mx = 6 if tier == 'quick' else 8
        out = []
        for n in range(1, mx + 1):
            for pat in itertools.product((0, 1), repeat=n):
                if n == 1 and pat == (0,):
                    continue
                out.append({'pat': list(pat), 'sepval': False})
                if sum(pat) >= 2 and n <= 4:
                    out.append({'pat': list(pat), 'sepval': True})
        return out

    def build(self, e, p):
        return {'xs': [e.fresh_int('x%d' % i, -99, 99) for i in range(len(p['pat']))]}

    def run(self, env, inp, p):
        outs = {}
        names = ['v%s' % 'abcdefgh'[i] for i in range(len(p['pat']))]
        for sname, sep in SEPS.items():
            P = env.Parser()
            got = []
            P.set_function('R', lambda *a: (got.append(a), 1)[1])
            vals = list(inp['xs'])
            if p.get('sepval'):
                # the second present slot holds the separator character itself as a text VALUE
                k = [i for i, pr in enumerate(p['pat']) if pr][1]
                vals[k] = sep
            for n, x in zip(names, vals):
                P.set_variable(n, x)
            text = 'R(' + sep.join(n if present else '' for n, present in zip(names, p['pat'])) + ')'
            outs[sname] = (P.parse(text), got)
        return outs

    def post(self, env, inp, out, p):
        if isinstance(out, Raised):
            return False
        cl = []
        errs = set()
        for sname, (o, got) in out.items():
            vals = list(inp['xs'])
            if p.get('sepval'):
                vals[[i for i, pr in enumerate(p['pat']) if pr][1]] = SEPS[sname]
            want = [x if present else None for x, present in zip(vals, p['pat'])]
            if not is_record(o):
                return False
            errs.add(o['error'])
            if o['error'] is not None:
                continue        # a rejected call: nothing promised about it, but all three separators must agree (below)
            if len(got) != 1 or len(got[0]) != len(want):
                return False
            cl.append(And(*[(g is None) if w is None else ((isstr(g) and g == w) if isstr(w) else (isint(g) and g == w)) for g, w in zip(got[0], want)]))
        if len(errs) != 1:
            return False
        return And(*cl)


@register
class ArrayLiterals(_Sym):
    name = 'C05.arrays'
    doc = 'an accepted array literal written with one separator kind is a flat list, and one with ; between two comma- or ' \
          'backslash-separated rows is the list of those two rows'
    functions = ('grammarparser.parser.p_array', 'grammarparser.parser.p_expseq_semicolon')
    bounds = 'flat literals of 1..6 (quick) / 1..9 (thorough) symbolic integers with each separator; two rows of 2..4 and 1..4 ' \
             'items (row lengths independent; a one-item second row only if the literal is accepted); items written as variables, or as literals (signed one-digit numbers and ' \
             'one-letter quoted texts alternating, at most 6 items)'

    def cases(self, tier):
        out = [{'rows': 1, 'n': n, 'm': 0, 'sep': s, 'lit': l} for n in range(1, 7 if tier == 'quick' else 10) for s in SEPS for l in (0, 1) if not (l and n > 6)]
        out += [{'rows': 2, 'n': n, 'm': m, 'sep': s, 'lit': l} for n in (2, 3, 4) for m in (1, 2, 3, 4) for s in ('comma', 'back')
                for l in (0, 1) if n + m <= (6 if l else 8)]
        return out

    def build(self, e, p):
        k = p['n'] + p['m']
        if p['lit']:
            xs = []
            for i in range(k):
                if i % 2 == 0:
                    xs.append(e.fresh_str('d%d' % i, 1, alphabet=DIGITS))
                else:
                    xs.append(e.fresh_str('s%d' % i, 1, alphabet=LETTERS))
            return {'xs': xs}
        return {'xs': [e.fresh_int('x%d' % i, -99, 99) for i in range(k)]}

    def run(self, env, inp, p):
        xs = inp['xs']
        if p['lit']:
            # items 0, 4, 8 are negative one-digit numbers, 2, 6 positive ones, odd items quoted one-character texts
            names = [(('-' if i % 4 == 0 else '') + x) if i % 2 == 0 else ('"' + x + '"') for i, x in enumerate(xs)]
            variables = {}
        else:
            names = ['v%s' % 'abcdefghi'[i] for i in range(len(xs))]
            variables = dict(zip(names, xs))
        sep = SEPS[p['sep']]

        def join(items):        # str.join does not take symbolic texts
            t = items[0]
            for x in items[1:]:
                t = t + sep + x
            return t
        if p['rows'] == 1:
            text = '{' + join(names) + '}'
        else:
            n = p['n']
            text = '{' + join(names[:n]) + ';' + join(names[n:]) + '}'
        return self.parse_with(env, text, variables)

    def post(self, env, inp, out, p):
        if p['rows'] == 2 and p['m'] == 1 and is_record(out) and out['error'] is not None:
            return True     # "an ACCEPTED array literal": a one-item row is not a separated row, rejection is not a violation
        if not ok_result(out):
            return False
        r = out['result']
        xs = list(inp['xs'])
        if p['lit']:
            xs = [(digits_value(cps_of(x)) * (-1 if i % 4 == 0 else 1)) if i % 2 == 0 else x for i, x in enumerate(xs)]
        if p['rows'] == 1:
            want = list(xs)
        else:
            want = [list(xs[:p['n']]), list(xs[p['n']:])]

        def eq(r, w):
            if isinstance(w, list):
                return isinstance(r, list) and len(r) == len(w) and And(*[eq(x, y) for x, y in zip(r, w)])
            if isstr(w):
                return isstr(r) and r == w
            return isint(r) and r == w
        return eq(r, want)


CASE_SHAPES = ['%s', '%s+1', 'SUM(%s:%s)', '-%s', 'SUM(%s,%s)']


@register
class CellCase(_Sym):
    name = 'C05.cellcase'
    doc = 'cell references are case-insensitive: a reference written in any mix of upper- and lower-case letters gives the host ' \
          'the same events (label, coordinates, markers) and the formula the same outcome as the upper-case spelling'
    functions = ('grammarparser.lexer.t_ABSOLUTE_CELL', 'grammarparser.lexer.t_MIXED_CELL', 'grammarparser.lexer.t_RELATIVE_CELL',
                 'Parser.call_cell_value', 'Parser.call_range_value', 'helper.cell.extract_label')
    bounds = 'labels $?[A-Za-z]{1,3}$?[1-9][0-9]{0,2} (symbolic, every $ pattern) in %d formula shapes with one or two references; ' \
             'the host value depends on the label text and coordinates it receives' % len(CASE_SHAPES)

    def cases(self, tier):
        out = []
        for sh in range(len(CASE_SHAPES)):
            for nl in (1, 2, 3):
                for ca in (0, 1):
                    for ra in (0, 1):
                        out.append({'sh': sh, 'nl': nl, 'nd': 1 + (nl + sh) % 3, 'ca': ca, 'ra': ra})
        return out

    def build(self, e, p):
        from .c10 import make_label
        k = CASE_SHAPES[p['sh']].count('%s')
        labs = []
        for i in range(k):
            # the second reference has the complementary $ pattern
            ca, ra = (p['ca'], p['ra']) if i == 0 else (1 - p['ca'], 1 - p['ra'])
            lab, col, row = make_label(e, 'l%d' % i, p['nl'], p['nd'], ca, ra)
            labs.append(lab)
        return {'labs': labs, 'v': e.fresh_int('v', -50, 50)}

    def run(self, env, inp, p):
        from .c19 import upper_cps
        outs = []
        for upper in (False, True):
            labs = [mkstr(upper_cps(cps_of(l))) if upper else l for l in inp['labs']]
            P = env.Parser()
            events = []

            def on_cell(cell, setter):
                events.append(('cell', cell.label, cell.row.index, cell.col.index, cell.row.is_absolute, cell.col.is_absolute, cell.row.label, cell.col.label))
                setter(inp['v'] + cell.row.index)

            def on_range(a, b, setter):
                events.append(('range', a.label, b.label, a.row.index, a.col.index, b.row.index, b.col.index, a.col.label, b.col.label,
                               a.row.is_absolute, a.col.is_absolute, b.row.is_absolute, b.col.is_absolute))
                setter([inp['v'], a.col.index])
            P.on('callCellValue', on_cell)
            P.on('callRangeValue', on_range)
            text = CASE_SHAPES[p['sh']]
            parts = text.split('%s')
            t = parts[0]
            for lab, rest in zip(labs, parts[1:]):
                t = t + lab + rest
            outs.append((P.parse(t), events))
        return outs

    def post(self, env, inp, out, p):
        if isinstance(out, Raised):
            return False
        (o1, ev1), (o2, ev2) = out
        if not (is_record(o1) and is_record(o2)) or len(ev1) != len(ev2) or not ev1:
            return False
        cl = [o1['error'] == o2['error'], same_type_eq(o1['result'], o2['result'])]
        for a, b in zip(ev1, ev2):
            if len(a) != len(b) or a[0] != b[0]:
                return False
            for x, y in zip(a[1:], b[1:]):
                cl.append(same_type_eq(x, y))
        return And(*cl)
