"""C05 - lexical conventions: literals, whitespace, separators, case, empty arguments."""
import itertools
import z3
from ..harness import Harness, register, Raised
from ..spec import And, Or, Not, Implies, tb, same_type_eq
from ..values import SymInt, SymBool, SymStr, SymFloat, zint, mkint, mkbool, cps_of, zcp, mkstr, in_ranges
from .. import engine as E
from .. import symre
from .common import ok_result, err_is, is_record, isint, isstr, isnum, DIGITS


def digits_value(cps):
    v = z3.IntVal(0)
    for c in cps:
        v = v * 10 + (zcp(c) - 48)
    return mkint(z3.simplify(v))


class _Sym(Harness):
    prop = 'C05'
    needs_ply = True
    max_decisions = 20000
    case_timeout_s = {'quick': 200, 'thorough': 2000}


@register
class NumericLiterals(_Sym):
    name = 'C05.numbers'
    doc = 'a numeric literal (digits, digits.digits, .digits, integer%, integer^integer) evaluates to exactly the number it spells'
    functions = ('grammarparser.lexer.t_NUMBER', 'grammarparser.lexer.t_DECIMAL', 'grammarparser.lexer.t_PERCENT',
                 'grammarparser.lexer.t_CARET', 'grammarparser.parser.p_expression_number', 'helper.number.to_number')
    bounds = 'digit strings of 1..4 digits per part (symbolic text); exponent of d^d one digit 0..9 with a base of 1..2 digits; ' \
             'decimal values compared as the correctly rounded quotient digits / 10^k (what float() of the spelling is)'

    def cases(self, tier):
        out = []
        ds = (1, 2, 3, 4)
        for a in ds:
            out.append({'form': 'int', 'a': a, 'b': 0})
            out.append({'form': 'pct', 'a': a, 'b': 0})
        for a in ds if tier == 'thorough' else (1, 2, 3):
            for b in ds if tier == 'thorough' else (1, 2, 3):
                out.append({'form': 'dec', 'a': a, 'b': b})
        for b in ds:
            out.append({'form': 'dot', 'a': 0, 'b': b})
        for a in (1, 2):
            out.append({'form': 'pow', 'a': a, 'b': 1})
        return out

    def build(self, e, p):
        a = e.fresh_str('a', p['a'], alphabet=DIGITS) if p['a'] else ''
        b = e.fresh_str('b', p['b'], alphabet=DIGITS) if p['b'] else ''
        return {'a': a, 'b': b}

    def text(self, inp, p):
        a, b = inp['a'], inp['b']
        return {'int': lambda: a, 'pct': lambda: a + '%', 'dec': lambda: a + '.' + b, 'dot': lambda: '.' + b, 'pow': lambda: a + '^' + b}[p['form']]()

    def run(self, env, inp, p):
        return env.Parser().parse(self.text(inp, p))

    def post(self, env, inp, out, p):
        if not ok_result(out):
            return False
        r = out['result']
        if isinstance(r, (bool, SymBool)) or not isnum(r):
            return False
        va = digits_value(cps_of(inp['a'])) if p['a'] else 0
        vb = digits_value(cps_of(inp['b'])) if p['b'] else 0
        f = p['form']
        if f == 'int':
            return And(isint(r), r == va)
        if f == 'pct':
            return r == va / 100
        if f in ('dec', 'dot'):
            k = p['b']
            return r == (va * 10 ** k + vb) / 10 ** k
        from ..values import concretize_int
        kb = concretize_int(vb, 0, 9, 'exponent') if env.symbolic else vb
        return r == va ** kb


@register
class QuotedLiterals(_Sym):
    name = 'C05.strings'
    doc = 'a quoted literal evaluates to exactly the characters between its quotes'
    functions = ('grammarparser.lexer.t_STRING', 'grammarparser.parser.p_expression_string')
    bounds = 'bodies of 0..3 (quick) / 0..5 (thorough) arbitrary code points other than the delimiting quote; both quote kinds'

    def cases(self, tier):
        return [{'q': q, 'len': n} for q in (34, 39) for n in range(0, 4 if tier == 'quick' else 6)]

    def build(self, e, p):
        if p['len'] == 0:
            return {'body': ''}
        body = e.fresh_str('b', p['len'])
        for c in body.cps:
            e.add(c != p['q'])
        return {'body': body}

    def run(self, env, inp, p):
        q = chr(p['q'])
        return env.Parser().parse(q + inp['body'] + q)

    def post(self, env, inp, out, p):
        return And(ok_result(out), isstr(out['result']) and out['result'] == inp['body'])


WS_SKELETONS = [
    ['SUM(', 'va', ',', '2', ')', '*', '3'],
    ['va', '+', 'vb'],
    ['IF(', 'va', '>', '1', ';', '"x y"', ';', 'vb', ')'],
    ['{', '1', ',', 'va', '}'],
    ['-', 'va', '&', '"a"'],
    ['A1', ':', 'B2'],
    ['(', 'va', '-', 'vb', ')', '/', '4'],
    ['va', '<=', 'vb'],
]


@register
class Whitespace(_Sym):
    name = 'C05.whitespace'
    doc = 'whitespace between tokens (other than between a function name and its opening parenthesis) never changes the outcome'
    functions = ('grammarparser.lexer.t_WHITESPACE', 'ply.lex.Lexer.token')
    bounds = '%d formula skeletons; at one token boundary at a time (every boundary in turn) a symbolic whitespace string of ' \
             'length 1..2 over every character the lexer\'s \\s class accepts; variable values symbolic integers' % len(WS_SKELETONS)
    outside = ('whitespace at several boundaries at once beyond the two-boundary combinations of the thorough tier',)

    def cases(self, tier):
        out = []
        for i, sk in enumerate(WS_SKELETONS):
            for pos in range(0, len(sk) + 1):
                for n in (1, 2):
                    out.append({'sk': i, 'pos': [pos], 'n': n})
            if tier == 'thorough':
                for a, b in itertools.combinations(range(len(sk) + 1), 2):
                    out.append({'sk': i, 'pos': [a, b], 'n': 1})
        return out

    def build(self, e, p):
        ws_ranges = symre._cat_ranges('SPACE')
        ws = []
        for k in range(len(p['pos'])):
            ws.append(e.fresh_str('w%d' % k, p['n'], alphabet=ws_ranges))
        return {'ws': ws, 'a': e.fresh_int('a', -50, 50), 'b': e.fresh_int('b', -50, 50)}

    def run(self, env, inp, p):
        sk = WS_SKELETONS[p['sk']]
        text = ''
        plain = ''.join(sk)
        k = 0
        for i, tok in enumerate(sk):
            if i in p['pos']:
                text = text + inp['ws'][k]
                k += 1
            text = text + tok
        if len(sk) in p['pos']:
            text = text + inp['ws'][k]

        def go(t):
            P = env.Parser()
            P.set_variable('va', inp['a'])
            P.set_variable('vb', inp['b'])
            P.on('callCellValue', lambda cell, s: s(inp['a']))
            P.on('callRangeValue', lambda a, b, s: s([inp['a'], inp['b']]))
            return P.parse(t)
        return [go(plain), go(text)]

    def post(self, env, inp, out, p):
        if isinstance(out, Raised) or not all(is_record(o) for o in out):
            return False
        a, b = out
        return And(a['error'] == b['error'], same_type_eq(a['result'], b['result']))


SEPS = {'comma': ',', 'semi': ';', 'back': '\\'}


@register
class Slots(Harness):
    name = 'C05.slots'
    prop = 'C05'
    doc = 'an accepted call passes exactly one argument per separator-delimited slot, in order, an omitted slot arriving as ' \
          'blank, whichever of , ; \\ separates them; the three separators give the same outcome'
    functions = ('grammarparser.parser.p_expseq_comma', 'grammarparser.parser.p_expseq_semicolon', 'grammarparser.parser.p_expseq_backslash',
                 'grammarparser.parser.p_expression_wargs', 'Parser.call_function')
    bounds = 'every present/absent pattern of 1..4 slots (quick) / 1..6 (thorough) x 3 separators; present slots hold symbolic ' \
             'integers or the separator character itself as a text value'

    def cases(self, tier):
        mx = 4 if tier == 'quick' else 6
        out = []
        for n in range(1, mx + 1):
            for pat in itertools.product((0, 1), repeat=n):
                if n == 1 and pat == (0,):
                    continue
                out.append({'pat': list(pat), 'sepval': False})
                if sum(pat) >= 2 and n <= 4:
                    out.append({'pat': list(pat), 'sepval': True})
        return out

    def build(self, e, p):
        return {'xs': [e.fresh_int('x%d' % i, -99, 99) for i in range(len(p['pat']))]}

    def run(self, env, inp, p):
        outs = {}
        names = ['v%s' % 'abcdef'[i] for i in range(len(p['pat']))]
        for sname, sep in SEPS.items():
            P = env.Parser()
            got = []
            P.set_function('R', lambda *a: (got.append(a), 1)[1])
            vals = list(inp['xs'])
            if p.get('sepval'):
                # the second present slot holds the separator character itself as a text VALUE
                k = [i for i, pr in enumerate(p['pat']) if pr][1]
                vals[k] = sep
            for n, x in zip(names, vals):
                P.set_variable(n, x)
            text = 'R(' + sep.join(n if present else '' for n, present in zip(names, p['pat'])) + ')'
            outs[sname] = (P.parse(text), got)
        return outs

    def post(self, env, inp, out, p):
        if isinstance(out, Raised):
            return False
        cl = []
        errs = set()
        for sname, (o, got) in out.items():
            vals = list(inp['xs'])
            if p.get('sepval'):
                vals[[i for i, pr in enumerate(p['pat']) if pr][1]] = SEPS[sname]
            want = [x if present else None for x, present in zip(vals, p['pat'])]
            if not is_record(o):
                return False
            errs.add(o['error'])
            if o['error'] is not None:
                continue        # a rejected call: nothing promised about it, but all three separators must agree (below)
            if len(got) != 1 or len(got[0]) != len(want):
                return False
            cl.append(And(*[(g is None) if w is None else ((isstr(g) and g == w) if isstr(w) else (isint(g) and g == w)) for g, w in zip(got[0], want)]))
        if len(errs) != 1:
            return False
        return And(*cl)


@register
class ArrayLiterals(Harness):
    name = 'C05.arrays'
    prop = 'C05'
    doc = 'an accepted array literal written with one separator kind is a flat list, and one with ; between two comma- or ' \
          'backslash-separated rows is the list of those two rows'
    functions = ('grammarparser.parser.p_array', 'grammarparser.parser.p_expseq_semicolon')
    bounds = 'flat literals of 1..4 symbolic integers with each separator; two rows of 2..3 items'

    def cases(self, tier):
        out = [{'rows': 1, 'n': n, 'sep': s} for n in (1, 2, 3, 4) for s in SEPS]
        out += [{'rows': 2, 'n': n, 'sep': s} for n in (2, 3) for s in ('comma', 'back')]
        return out

    def build(self, e, p):
        return {'xs': [e.fresh_int('x%d' % i, -99, 99) for i in range(p['n'] * p['rows'])]}

    def run(self, env, inp, p):
        names = ['v%s' % 'abcdef'[i] for i in range(len(inp['xs']))]
        sep = SEPS[p['sep']]
        if p['rows'] == 1:
            text = '{' + sep.join(names) + '}'
        else:
            n = p['n']
            text = '{' + sep.join(names[:n]) + ';' + sep.join(names[n:]) + '}'
        return self.parse_with(env, text, dict(zip(names, inp['xs'])))

    def post(self, env, inp, out, p):
        if not ok_result(out):
            return False
        r = out['result']
        xs = inp['xs']
        if p['rows'] == 1:
            want = list(xs)
        else:
            want = [list(xs[:p['n']]), list(xs[p['n']:])]
        from .c18 import eq_list
        return eq_list(r, want)
