"""C19 - cell labels and row/column indices correspond one-to-one."""
import z3
from ..harness import Harness, register, Raised
from ..spec import And, Or, Not, Implies, Iff, tb, same_type_eq
from ..values import SymInt, SymBool, SymStr, zint, mkint, mkbool, mkstr, cps_of, zcp
from .common import LETTERS, DIGITS, isint, isstr

NCOL4 = sum(26 ** k for k in range(1, 8))   # columns of 1..7 letters


def letter_digit(c):
    """0..25 for a code point that is an ASCII letter of either case"""
    c = zcp(c)
    return z3.If(c >= 97, c - 97, c - 65)


def bij26(cps):
    """bijective base-26 value (A=0, Z=25, AA=26) written independently of the implementation"""
    v = z3.IntVal(0)
    for c in cps:
        v = v * 26 + (letter_digit(c) + 1)
    return z3.simplify(v - 1)


def upper_cps(cps):
    return [z3.simplify(z3.If(zcp(c) >= 97, zcp(c) - 32, zcp(c))) for c in cps]


def str_eq_cps(s, cps):
    """s (str|SymStr) equals the code point list"""
    sc = cps_of(s)
    if sc is None or len(sc) != len(cps):
        return False
    return mkbool(z3.simplify(z3.And(*[zcp(a) == zcp(b) for a, b in zip(sc, cps)]))) if cps else True


@register
class ColLabelToIndex(Harness):
    name = 'C19.col_l2i'
    prop = 'C19'
    doc = 'column_label_to_index on every label of 1..6 / 1..9 letters of either case = bijective base-26 value; and back'
    functions = ('helper.cell.column_label_to_index', 'helper.cell.column_index_to_label')
    bounds = 'labels of 1..6 (quick) / 1..9 (thorough) ASCII letters, any case mix (all columns below 26^7 resp. 26^10 x case variants)'
    outside = ('columns of 10 or more letters',)

    def cases(self, tier):
        return [{'len': n} for n in range(1, 7 if tier == 'quick' else 10)]

    def build(self, e, p):
        return {'label': e.fresh_str('l', p['len'], alphabet=LETTERS)}

    def run(self, env, inp, p):
        cell = env.mod('helper.cell')
        idx = cell.column_label_to_index(inp['label'])
        back = cell.column_index_to_label(idx)
        return (idx, back)

    def post(self, env, inp, out, p):
        if isinstance(out, Raised):
            return False
        idx, back = out
        cps = cps_of(inp['label'])
        if not isint(idx):
            return False
        return And(mkbool(zint(idx) == bij26(cps)), str_eq_cps(back, upper_cps(cps)))


@register
class ColIndexToLabel(Harness):
    name = 'C19.col_i2l'
    prop = 'C19'
    doc = 'column_index_to_label on every index 0 <= i < 8353082582 (1..7 letters): letters only, upper case, value i; round trip'
    functions = ('helper.cell.column_index_to_label', 'helper.cell.column_label_to_index')
    bounds = '0 <= index < 26 + 26^2 + ... + 26^7 (1..7 letters); negative index gives the empty label'

    def cases(self, tier):
        return [{'neg': False}, {'neg': True}]

    def build(self, e, p):
        if p['neg']:
            return {'i': e.fresh_int('i', None, -1)}
        return {'i': e.fresh_int('i', 0, NCOL4 - 1)}

    def run(self, env, inp, p):
        cell = env.mod('helper.cell')
        lab = cell.column_index_to_label(inp['i'])
        if p['neg']:
            return (lab, None)
        return (lab, cell.column_label_to_index(lab))

    def post(self, env, inp, out, p):
        if isinstance(out, Raised):
            return False
        lab, back = out
        if p['neg']:
            return isinstance(lab, str) and lab == ''
        if not isstr(lab) or not (1 <= len(lab) <= 7):
            return False
        cps = cps_of(lab)
        i = zint(inp['i'])
        n = len(cps)
        first = sum(26 ** k for k in range(1, n))   # first index with n letters
        upper = z3.And(*[z3.And(zcp(c) >= 65, zcp(c) <= 90) for c in cps])
        return And(mkbool(upper), mkbool(bij26(cps) == i), mkbool(z3.And(i >= first, i < first + 26 ** n)),
                   isint(back) and mkbool(zint(back) == i))


@register
class ColOrder(Harness):
    name = 'C19.col_order'
    prop = 'C19'
    doc = 'order isomorphism: index order = (shorter label first, then alphabetical, case-insensitively); A=0 Z=25 AA=26'
    functions = ('helper.cell.column_label_to_index',)
    bounds = 'pairs of labels of 1..5 letters (quick) / 1..7 (thorough)'

    def cases(self, tier):
        m = 5 if tier == 'quick' else 7
        return [{'la': a, 'lb': b} for a in range(1, m + 1) for b in range(1, m + 1)] + [{'fixed': True}]

    def build(self, e, p):
        if p.get('fixed'):
            return {}
        return {'a': e.fresh_str('a', p['la'], alphabet=LETTERS), 'b': e.fresh_str('b', p['lb'], alphabet=LETTERS)}

    def run(self, env, inp, p):
        f = env.mod('helper.cell').column_label_to_index
        if p.get('fixed'):
            return [f(x) for x in ('A', 'Z', 'AA', 'a', 'z', 'aa', 'XFD')]
        return (f(inp['a']), f(inp['b']))

    def post(self, env, inp, out, p):
        if isinstance(out, Raised):
            return False
        if p.get('fixed'):
            return out == [0, 25, 26, 0, 25, 26, 16383]
        ia, ib = out
        ca, cb = upper_cps(cps_of(inp['a'])), upper_cps(cps_of(inp['b']))
        if len(ca) != len(cb):
            want = z3.BoolVal(len(ca) < len(cb))
        else:
            want = SymStr._ltz(tuple(ca), tuple(cb), True)
        return mkbool(z3.simplify((zint(ia) < zint(ib)) == want))


@register
class Rows(Harness):
    name = 'C19.rows'
    prop = 'C19'
    doc = 'row label <-> zero-based index: label = index + 1, both directions, round trips'
    functions = ('helper.cell.row_label_to_index', 'helper.cell.row_index_to_label')
    bounds = '0 <= index < 10^12 (1..12 digit labels); labels given as digit strings without leading zeros'

    def cases(self, tier):
        return [{'dir': 'i2l'}] + [{'dir': 'l2i', 'nd': k} for k in range(1, 13)]

    def build(self, e, p):
        if p['dir'] == 'i2l':
            return {'i': e.fresh_int('i', 0, 10 ** 12 - 1)}
        s = e.fresh_str('r', p['nd'], alphabet=DIGITS)
        e.add(s.cps[0] != 48)
        return {'r': s}

    def run(self, env, inp, p):
        cell = env.mod('helper.cell')
        if p['dir'] == 'i2l':
            lab = cell.row_index_to_label(inp['i'])
            return (lab, cell.row_label_to_index(lab))
        idx = cell.row_label_to_index(inp['r'])
        return (idx, cell.row_index_to_label(idx))

    def post(self, env, inp, out, p):
        if isinstance(out, Raised):
            return False
        if p['dir'] == 'i2l':
            lab, back = out
            if not isstr(lab) or not isint(back):
                return False
            cps = cps_of(lab)
            val = z3.IntVal(0)
            for c in cps:
                val = val * 10 + (zcp(c) - 48)
            digits = z3.And(*[z3.And(zcp(c) >= 48, zcp(c) <= 57) for c in cps])
            i = zint(inp['i'])
            return mkbool(z3.simplify(z3.And(digits, zcp(cps[0]) != 48, val == i + 1, zint(back) == i)))
        idx, lab = out
        cps = cps_of(inp['r'])
        val = z3.IntVal(0)
        for c in cps:
            val = val * 10 + (zcp(c) - 48)
        if not isint(idx):
            return False
        return And(mkbool(z3.simplify(zint(idx) == val - 1)), str_eq_cps(lab, list(cps)))


def _shape_label(cps):
    """z3 predicate: the code points spell  $?letters+$?digits+  exactly (no trailing anything)."""
    n = len(cps)
    is_letter = lambda c: z3.Or(z3.And(c >= 65, c <= 90), z3.And(c >= 97, c <= 122))
    is_digit = lambda c: z3.And(c >= 48, c <= 57)
    alts = []
    for d1 in (0, 1):
        for nl in range(1, n):
            for d2 in (0, 1):
                nd = n - d1 - nl - d2
                if nd < 1:
                    continue
                conj = []
                k = 0
                if d1:
                    conj.append(zcp(cps[k]) == 36); k += 1
                for _ in range(nl):
                    conj.append(is_letter(zcp(cps[k]))); k += 1
                if d2:
                    conj.append(zcp(cps[k]) == 36); k += 1
                for _ in range(nd):
                    conj.append(is_digit(zcp(cps[k]))); k += 1
                alts.append(z3.And(*conj))
    return z3.Or(*alts) if alts else z3.BoolVal(False)


@register
class ExtractLabel(Harness):
    name = 'C19.extract'
    prop = 'C19'
    doc = 'to_label(*extract_label(l)) = upper(l) with absolute markers reported as written, for every label ' \
          '$?[A-Za-z]{1,n}$?[1-9][0-9]{0,k}'
    functions = ('helper.cell.extract_label', 'helper.cell.to_label', 'helper.cell.LABEL_EXTRACT_REGEXP',
                 'helper.cell.row_label_to_index', 'helper.cell.column_label_to_index',
                 'helper.cell.row_index_to_label', 'helper.cell.column_index_to_label')
    bounds = 'column 1..5 letters (thorough 1..7) either case, row 1, 2, 4, 7, 8, 10 digits (thorough every 1..12) without leading zero, all four $ patterns'

    def cases(self, tier):
        rows = (1, 2, 4, 7, 8, 10) if tier == 'quick' else tuple(range(1, 13))
        cols = (1, 2, 3, 4, 5) if tier == 'quick' else (1, 2, 3, 4, 5, 6, 7)
        return [{'nl': nl, 'nd': nd, 'ca': ca, 'ra': ra} for nl in cols for nd in rows for ca in (0, 1) for ra in (0, 1)]

    def build(self, e, p):
        col = e.fresh_str('c', p['nl'], alphabet=LETTERS)
        row = e.fresh_str('r', p['nd'], alphabet=DIGITS)
        e.add(row.cps[0] != 48)
        cps = ((36,) if p['ca'] else ()) + col.cps + ((36,) if p['ra'] else ()) + row.cps
        return {'label': SymStr(cps), 'col': col, 'row': row}

    def run(self, env, inp, p):
        cell = env.mod('helper.cell')
        parts = cell.extract_label(inp['label'])
        if not parts:
            return ('empty',)
        r, c = parts
        return ('ok', r.index, c.index, r.is_absolute, c.is_absolute, cell.to_label(r, c))

    def post(self, env, inp, out, p):
        if isinstance(out, Raised) or out[0] != 'ok':
            return False
        _, ri, ci, ra, ca, lab = out
        colc, rowc = cps_of(inp['col']), cps_of(inp['row'])
        val = z3.IntVal(0)
        for c in rowc:
            val = val * 10 + (zcp(c) - 48)
        want = ([36] if p['ca'] else []) + upper_cps(colc) + ([36] if p['ra'] else []) + list(rowc)
        if not isint(ri) or not isint(ci):
            return False
        return And(mkbool(z3.simplify(zint(ri) == val - 1)), mkbool(zint(ci) == bij26(colc)),
                   same_type_eq(ra, bool(p['ra'])), same_type_eq(ca, bool(p['ca'])),
                   str_eq_cps(lab, want))


@register
class NonLabels(Harness):
    name = 'C19.nonlabels'
    prop = 'C19'
    doc = 'arbitrary strings (any code points) that are not of the form $?letters$?digits decompose to nothing; ' \
          'strings of that form with a positive row without leading zeros decompose to something'
    functions = ('helper.cell.extract_label', 'helper.cell.LABEL_EXTRACT_REGEXP')
    bounds = 'all strings of length 0..4 (quick) / 0..6 (thorough) over all 1114112 code points'
    outside = ('rows written 0 or with leading zeros are neither required to be accepted nor to be rejected',)

    def cases(self, tier):
        return [{'len': n} for n in range(0, 5 if tier == 'quick' else 7)]

    def build(self, e, p):
        return {'s': e.fresh_str('s', p['len'])}

    def run(self, env, inp, p):
        return len(env.mod('helper.cell').extract_label(inp['s']))

    def post(self, env, inp, out, p):
        if isinstance(out, Raised):
            return False
        s = inp['s']
        cps = cps_of(s)
        if env.symbolic:
            shape = _shape_label(cps)
        else:
            import re
            shape = z3.BoolVal(re.fullmatch(r'\$?[A-Za-z]+\$?[0-9]+', s) is not None)
        nonempty = out != 0
        # not of the label form at all -> must be empty.  (form with row 0 / leading zeros: not asserted)
        return mkbool(z3.simplify(z3.Implies(z3.Not(shape), z3.BoolVal(not nonempty))))
