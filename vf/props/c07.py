"""C07 - comparisons form a consistent total order with number < text < logical."""
import z3
from ..harness import Harness, register, Raised
from ..spec import And, Or, Not, Implies, Iff, tb
from ..values import SymInt, SymBool, SymFloat, SymStr, zint, mkint, mkbool, zbool, cps_of, zcp
from .common import ok_result, is_record, isbool
from . import pool
from .pool import is_date, is_text, is_logical, is_number, num_real

OPS = ('<', '=', '>', '<=', '>=', '<>')


def rank(v):
    if is_text(v):
        return 1
    if is_logical(v):
        return 2
    return 0     # number or date


def blank_as(other):
    if is_text(other):
        return ''
    if is_logical(other):
        return False
    return 0


def oracle(a, b):
    """(lt, eq, comparable_exactly) as z3 Bool terms, from the statement."""
    if a is None and b is None:
        return z3.BoolVal(False), z3.BoolVal(True), z3.BoolVal(True)
    if a is None:
        a = blank_as(b)
    if b is None:
        b = blank_as(a)
    ra, rb = rank(a), rank(b)
    T = z3.BoolVal(True)
    if ra != rb:
        return z3.BoolVal(ra < rb), z3.BoolVal(False), T
    if ra == 1:
        ca, cb = cps_of(a), cps_of(b)
        lt = SymStr._ltz(ca, cb, True)
        eq = z3.And(*[zcp(x) == zcp(y) for x, y in zip(ca, cb)]) if len(ca) == len(cb) else z3.BoolVal(False)
        if len(ca) == len(cb) == 0:
            eq = T
        return lt, eq, T
    if ra == 2:
        za, zb = zbool(a), zbool(b)
        return z3.And(z3.Not(za), zb), za == zb, T
    x, y = num_real(a), num_real(b)
    exact = T
    # a date-time compared with a number goes through a float serial: assert only away from rounding distance
    for u, v in ((a, b), (b, a)):
        if is_date(u) and not is_date(v):
            from ..dates import as_sym_dt
            if not z3.is_int_value(z3.simplify(as_sym_dt(u).us)) or z3.simplify(as_sym_dt(u).us).as_long() != 0:
                d = x - y
                tol = z3.RealVal('1/100000000')
                exact = z3.Or(d > tol, -d > tol)
    return x < y, x == y, exact


@register
class Pairs(Harness):
    name = 'C07.pairs'
    prop = 'C07'
    doc = 'for every ordered pair of scalars the six comparison operators equal the order of the statement: numbers/dates ' \
          '(by serial) < text (lexicographic) < logicals; blank as 0 / "" / FALSE; hence trichotomy, derived relations, converse'
    functions = ('operators.evaluate_logic', 'operators.ExcelComparator.__lt__', 'operators.ExcelComparator.__gt__',
                 'operators.ExcelComparator.__eq__', 'operators.ExcelComparator.__le__', 'operators.ExcelComparator.__ge__',
                 'operators.ExcelComparator.convert_other', 'utils.serialize_date',
                 'grammarparser.parser.p_expression_logical_operator')
    bounds = 'operands: any integer, any float (real abstraction), logical, blank, text of length 0..3 (quick) / 0..5 ' \
             '(thorough) over all code points, whole-day dates and millisecond date-times 1900-03-01..9999-12-31, whole-day dates 1900-01-01..1900-02-28'
    outside = ('text longer than the bound', 'date-times with a time part before 1900-03-01', 'two date-times compared with each other when one of them is a whole second but not a whole day (quick tier: any two date-times with a time part)', 'a date-time compared with a number closer than 1e-8 days to its serial')
    stubs = ('IEEE rounding of the date serial as relative error 2^-53 per operation',)

    def cases(self, tier):
        L = (0, 1, 2, 3) if tier == 'quick' else (0, 1, 2, 3, 4, 5)
        out = []
        heavy = {('datetime', 'datetime'), ('datetime', 'date'), ('date', 'datetime')}
        for ta in pool.SCALAR_TAGS:
            for tb_ in pool.SCALAR_TAGS:
                if tier == 'quick' and (ta, tb_) in heavy:
                    continue   # five nested roundings on both sides: decided in the thorough tier (minutes)
                if ta == 'text' and tb_ == 'text':
                    for la in L:
                        for lb in L:
                            out.append({'ta': ta, 'tb': tb_, 'la': la, 'lb': lb})
                elif ta == 'text':
                    for la in L:
                        out.append({'ta': ta, 'tb': tb_, 'la': la, 'lb': 0})
                elif tb_ == 'text':
                    for lb in L:
                        out.append({'ta': ta, 'tb': tb_, 'la': 0, 'lb': lb})
                elif (ta, tb_) == ('datetime', 'datetime'):
                    # both serials go through five roundings: split by whether each instant is a whole second
                    # decided: both with a fractional second (103 s).  Pairs where one of the two is a whole second (but
                    # not a whole day) stayed undecided after 25 minutes on all three solvers: outside the claim.
                    out.append({'ta': ta, 'tb': tb_, 'la': 0, 'lb': 0, 'split': [0, 0]})
                else:
                    out.append({'ta': ta, 'tb': tb_, 'la': 0, 'lb': 0})
        # dates before 1 March 1900 (serial one less than the day count from 1899-12-30) against every other kind
        for t in ('int', 'float', 'bool', 'blank', 'text', 'date', 'earlydate'):
            out.append({'ta': 'earlydate', 'tb': t, 'la': 0, 'lb': 1})
            if t != 'earlydate':
                out.append({'ta': t, 'tb': 'earlydate', 'la': 1, 'lb': 0})
        return out

    def build(self, e, p):
        inp = {'a': pool.make(e, p['ta'], 'a', p['la']), 'b': pool.make(e, p['tb'], 'b', p['lb'])}
        if p.get('split'):
            for v, whole in zip((inp['a'], inp['b']), p['split']):
                ms = v.us / 1000
                e.add((ms % 1000 == 0) if whole else (ms % 1000 != 0))
        return inp

    def run(self, env, inp, p):
        vs = {'va': inp['a'], 'vb': inp['b']}
        outs = [self.parse_with(env, 'va%svb' % op, vs) for op in OPS]
        outs.append(self.parse_with(env, 'vb>va', vs))
        return outs

    def post(self, env, inp, out, p):
        if isinstance(out, Raised) or not all(ok_result(o) for o in out):
            return False
        rs = [o['result'] for o in out]
        if not all(isbool(r) for r in rs):
            return False
        lt, eq, exact = oracle(inp['a'], inp['b'])
        gt = z3.And(z3.Not(lt), z3.Not(eq))
        # one implication per (case of the order, operator): 21 small conjuncts, each checked by its own query --
        # logically the same as "every result equals the oracle", but the float reasoning (is the serial order the
        # time order?) is then separated from the boolean bookkeeping
        R = [zbool(r) for r in rs]
        cl = []
        for case, vals in ((lt, (True, False, False, True, False, True, True)),
                           (eq, (False, True, False, True, True, False, False)),
                           (gt, (False, False, True, False, True, True, False))):
            for r, v in zip(R, vals):
                cl.append(z3.Implies(z3.And(exact, case), r if v else z3.Not(r)))
        return mkbool(z3.simplify(z3.And(*cl)))


@register
class Transitive(Harness):
    name = 'C07.transitive'
    prop = 'C07'
    doc = 'a<b and b<c imply a<c on non-blank triples of mixed types (direct check, independent of the order oracle)'
    functions = ('operators.evaluate_logic', 'operators.ExcelComparator.__lt__')
    bounds = 'triples over {int, float, logical, text of length 1, whole-day date}'

    def cases(self, tier):
        tags = ('int', 'bool', 'text', 'date') if tier == 'quick' else ('int', 'float', 'bool', 'text', 'date')
        return [{'ta': a, 'tb': b, 'tc': c} for a in tags for b in tags for c in tags]

    def build(self, e, p):
        return {'a': pool.make(e, p['ta'], 'a', 1), 'b': pool.make(e, p['tb'], 'b', 1), 'c': pool.make(e, p['tc'], 'c', 1)}

    def run(self, env, inp, p):
        vs = {'va': inp['a'], 'vb': inp['b'], 'vc': inp['c']}
        return [self.parse_with(env, f, vs) for f in ('va<vb', 'vb<vc', 'va<vc')]

    def post(self, env, inp, out, p):
        if isinstance(out, Raised) or not all(ok_result(o) for o in out):
            return False
        ab, bc, ac = [o['result'] for o in out]
        if not all(isbool(r) for r in (ab, bc, ac)):
            return False
        return Implies(And(ab, bc), ac)
