"""Shared pieces for property harnesses: operand pools by type tag, outcome helpers."""
import z3
from ..harness import Harness, Raised
from ..spec import And, Or, Not, Implies, Iff, Ite, tb
from ..values import SymInt, SymBool, SymFloat, SymStr, mkstr, zint, mkint, mkbool

CODES = ('#ERROR!', '#DIV/0!', '#NAME?', '#N/A', '#NULL!', '#NUM!', '#REF!', '#VALUE!', '#GETTING_DATA')
ASCII_PRINT = [(32, 126)]
LETTERS = [(65, 90), (97, 122)]
DIGITS = [(48, 57)]


def is_record(out):
    return isinstance(out, dict) and set(out.keys()) == {'result', 'error'}


def ok_result(out):
    """parse outcome is a value (no error)"""
    return is_record(out) and out['error'] is None


def err_is(out, code):
    return is_record(out) and out['error'] == code and out['result'] is None


def any_error(out):
    return is_record(out) and out['error'] is not None and out['result'] is None


def isint(v):
    return isinstance(v, (int, SymInt)) and not isinstance(v, bool)


def isnum(v):
    return isinstance(v, (int, float, SymInt, SymFloat)) and not isinstance(v, (bool, SymBool))


def isstr(v):
    return isinstance(v, (str, SymStr))


def isbool(v):
    return isinstance(v, (bool, SymBool))


def numtext(e, name, ndigits, signed=True, sign=None):
    """text spelling an integer of exactly ndigits digits (first digit may be 0), optional '-' sign.
    Returns (text, value)."""
    from ..values import SymStr
    cs = e.fresh_str(name, ndigits, alphabet=DIGITS).cps
    val = z3.IntVal(0)
    for c in cs:
        val = val * 10 + (c - 48)
    if sign == '-':
        return SymStr((45,) + tuple(cs)), mkint(z3.simplify(-val))
    return SymStr(tuple(cs)), mkint(z3.simplify(val))


def operand(e, tag, name, **kw):
    """A symbolic operand of the given type tag; returns (value handed to the code, numeric value or None)."""
    if tag == 'int':
        v = e.fresh_int(name, kw.get('lo'), kw.get('hi'))
        return v, v
    if tag == 'bool':
        v = e.fresh_bool(name)
        return v, mkint(zint(v))
    if tag == 'blank':
        return None, 0
    if tag == 'numtext':
        nd = kw.get('ndigits', 2)
        return numtext(e, name, nd)
    if tag == 'negnumtext':
        nd = kw.get('ndigits', 2)
        return numtext(e, name, nd, sign='-')
    if tag == 'float':
        v = e.fresh_real(name, kw.get('lo'), kw.get('hi'))
        return v, v
    if tag == 'text':
        n = kw.get('length', 2)
        v = e.fresh_str(name, n, alphabet=kw.get('alphabet', LETTERS))
        return v, None
    raise ValueError(tag)
