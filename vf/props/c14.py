"""C14 - date and time functions agree with the proleptic Gregorian calendar."""
import datetime
import z3
from ..harness import Harness, register, Raised
from ..spec import And, Or, Not, Implies, Iff, tb
from ..values import SymInt, SymBool, SymFloat, zint, mkint, mkbool, zbool, fdiv, fmod, _floatval_nofork
from .. import dates
from ..dates import SymDateTime, as_sym_dt, z_days_in_month, z_ymd2ord, zleap
from .. import engine as E
from .common import ok_result, err_is, any_error, is_record, isint, isnum

ORD_1899_12_30 = datetime.date(1899, 12, 30).toordinal()
ORD_1900_03_01 = datetime.date(1900, 3, 1).toordinal()


def is_dt(v):
    return isinstance(v, (SymDateTime, datetime.datetime))


def int_eq(o, want):
    return And(ok_result(o), isint(o['result']) and o['result'] == want)


class _D(Harness):
    prop = 'C14'
    stubs = ('datetime modelled by proleptic ordinal arithmetic (CPython algorithms), validated against the real datetime in selftest',)


@register
class DateParts(_D):
    name = 'C14.date_parts'
    doc = 'YEAR / MONTH / DAY of DATE(y,m,d) = y, m, d for every valid date 1900..9999; years 0..1899 mean 1900+year; ' \
          'invalid month/day combinations give an error'
    functions = ('dateandtime.DATE', 'dateandtime.YEAR', 'dateandtime.MONTH', 'dateandtime.DAY', 'utils.parse_date')
    bounds = 'year any integer 0..9999, month concrete 1..12 (valid cases) / any integer -5..20 (invalid cases), day any integer -5..40'

    def cases(self, tier):
        return [{'month': m, 'mode': mode} for m in range(1, 13) for mode in ('valid', 'short_year')] + [{'month': 0, 'mode': 'invalid'}]

    def build(self, e, p):
        if p['mode'] == 'invalid':
            return {'y': e.fresh_int('y', 1900, 9999), 'm': e.fresh_int('m', -5, 20), 'd': e.fresh_int('d', -5, 40)}
        if p['mode'] == 'short_year':
            y = e.fresh_int('y', 0, 1899)
            d = e.fresh_int('d', 1, 31)
            e.add(d.z <= z_days_in_month(y.z + 1900, z3.IntVal(p['month'])))
        else:
            y = e.fresh_int('y', 1900, 9999)
            d = e.fresh_int('d', 1, 31)
            e.add(d.z <= z_days_in_month(y.z, z3.IntVal(p['month'])))
        return {'y': y, 'm': p['month'], 'd': d}

    def run(self, env, inp, p):
        vs = {'vy': inp['y'], 'vm': inp['m'], 'vd': inp['d']}
        return [self.parse_with(env, '%s(DATE(vy,vm,vd))' % f, vs) for f in ('YEAR', 'MONTH', 'DAY')]

    def post(self, env, inp, out, p):
        if isinstance(out, Raised) or not all(is_record(o) for o in out):
            return False
        y, m, d = inp['y'], inp['m'], inp['d']
        if p['mode'] == 'invalid':
            valid = mkbool(z3.simplify(z3.And(zint(m) >= 1, zint(m) <= 12, zint(d) >= 1, zint(d) <= z_days_in_month(zint(y), zint(m)))))
            return And(Implies(Not(valid), And(*[any_error(o) for o in out])),
                       Implies(valid, And(int_eq(out[0], y), int_eq(out[1], m), int_eq(out[2], d))))
        yy = y + 1900 if p['mode'] == 'short_year' else y
        return And(int_eq(out[0], yy), int_eq(out[1], m), int_eq(out[2], d))


@register
class TimeParts(_D):
    name = 'C14.time_parts'
    doc = 'HOUR / MINUTE / SECOND of TIME(h,m,s) = h, m, s'
    functions = ('dateandtime.TIME', 'dateandtime.HOUR', 'dateandtime.MINUTE', 'dateandtime.SECOND')
    bounds = 'all 0 <= h < 24, 0 <= m < 60, 0 <= s < 60'

    def build(self, e, p):
        return {'h': e.fresh_int('h', 0, 23), 'm': e.fresh_int('m', 0, 59), 's': e.fresh_int('s', 0, 59)}

    def run(self, env, inp, p):
        vs = {'vh': inp['h'], 'vm': inp['m'], 'vs': inp['s']}
        return [self.parse_with(env, '%s(TIME(vh,vm,vs))' % f, vs) for f in ('HOUR', 'MINUTE', 'SECOND')]

    def post(self, env, inp, out, p):
        if isinstance(out, Raised) or not all(is_record(o) for o in out):
            return False
        return And(int_eq(out[0], inp['h']), int_eq(out[1], inp['m']), int_eq(out[2], inp['s']))


@register
class SerialParts(_D):
    name = 'C14.serial_parts'
    doc = 'YEAR / MONTH / DAY read from a whole-day serial number n give a valid calendar date whose day count from ' \
          '1899-12-30 is n (checked forward through the independent date -> ordinal formula, which is injective)'
    functions = ('dateandtime.YEAR', 'dateandtime.MONTH', 'dateandtime.DAY', 'utils.parse_date')
    bounds = 'every integer serial 61..2958465 (1900-03-01..9999-12-31), split by 400-year cycle of the proleptic calendar'
    case_timeout_s = {'quick': 200, 'thorough': 1500}
    solver_timeout_ms = {'quick': 60000, 'thorough': 300000}

    def cases(self, tier):
        out = []
        for c in range(0, 30):
            lo, hi = c * 146097 + 1, (c + 1) * 146097
            lo, hi = max(lo, ORD_1900_03_01), min(hi, dates.MAXORD)
            if lo <= hi:
                out.append({'lo': lo - ORD_1899_12_30, 'hi': hi - ORD_1899_12_30})
        return out

    def build(self, e, p):
        return {'n': e.fresh_int('n', p['lo'], p['hi'])}

    def run(self, env, inp, p):
        vs = {'vn': inp['n']}
        return [self.parse_with(env, '%s(vn)' % f, vs) for f in ('YEAR', 'MONTH', 'DAY')]

    def post(self, env, inp, out, p):
        if isinstance(out, Raised) or not all(ok_result(o) for o in out):
            return False
        y, m, d = [o['result'] for o in out]
        if not (isint(y) and isint(m) and isint(d)):
            return False
        y, m, d, n = zint(y), zint(m), zint(d), zint(inp['n'])
        valid = z3.And(y >= 1900, y <= 9999, m >= 1, m <= 12, d >= 1, d <= z_days_in_month(y, m))
        return mkbool(z3.simplify(z3.And(valid, z_ymd2ord(y, m, d) - ORD_1899_12_30 == n)))


@register
class Differences(_D):
    name = 'C14.differences'
    doc = 'DAYS and DATEDIF (units d, m, y, ym) equal the calendar difference in days, whole months and whole years; #NUM! ' \
          'when the start is later than the end'
    functions = ('dateandtime.DAYS', 'dateandtime.DATEDIF', 'utils.serialize_date')
    bounds = 'all pairs of whole-day dates 1900-03-01..9999-12-31 (unit d / DAYS: arbitrary days; units m, y, ym: both months symbolic)'
    case_timeout_s = {'quick': 200, 'thorough': 1500}

    def cases(self, tier):
        return [{'unit': u} for u in ('d', 'm', 'y', 'ym')]

    def build(self, e, p):
        if p['unit'] == 'd':
            return {'a': dates.fresh_datetime_ord(e, 'a', ORD_1900_03_01), 'b': dates.fresh_datetime_ord(e, 'b', ORD_1900_03_01)}
        a = dates.fresh_datetime(e, 'a')
        b = dates.fresh_datetime(e, 'b')
        e.add(a.ord >= ORD_1900_03_01, b.ord >= ORD_1900_03_01)
        return {'a': a, 'b': b}

    def run(self, env, inp, p):
        vs = {'va': inp['a'], 'vb': inp['b']}
        out = [self.parse_with(env, 'DATEDIF(va,vb,"%s")' % p['unit'], vs)]
        if p['unit'] == 'd':
            out.append(self.parse_with(env, 'DAYS(vb,va)', vs))
        return out

    def post(self, env, inp, out, p):
        if isinstance(out, Raised) or not all(is_record(o) for o in out):
            return False
        a, b = as_sym_dt(inp['a']), as_sym_dt(inp['b'])
        dd = out[0]
        later = mkbool(z3.simplify(a.ord > b.ord))
        cl = [Implies(later, err_is(dd, '#NUM!'))]
        if p['unit'] == 'd':
            diff = mkint(z3.simplify(b.ord - a.ord))
            cl.append(Implies(Not(later), And(ok_result(dd), isnum(dd['result']) and dd['result'] == diff)))
            days = out[1]
            cl.append(And(ok_result(days), isnum(days['result']) and days['result'] == diff))
            return And(*cl)
        ya, ma, da = a._ymd()
        yb, mb, db = b._ymd()
        months = (yb - ya) * 12 + (mb - ma) - z3.If(db < da, 1, 0)      # whole months between a and b (a <= b)
        want = {'m': months, 'y': fdiv(months, z3.IntVal(12)), 'ym': fmod(months, z3.IntVal(12))}[p['unit']]
        cl.append(Implies(Not(later), And(ok_result(dd), isint(dd['result']) and mkbool(z3.simplify(zint(dd['result']) == want)))))
        return And(*cl)


@register
class Weekday(_D):
    name = 'C14.weekday'
    doc = 'WEEKDAY equals the true day of the week under numbering types 1-3 and is #NUM! for other types'
    functions = ('dateandtime.WEEKDAY',)
    bounds = 'every day 1900-03-01..9999-12-31; return type any integer -5..25, given as an integer, as an integer-valued float (4/2) ' \
             'and as a logical'

    def cases(self, tier):
        return [{'tk': 'int'}, {'tk': 'float'}, {'tk': 'bool'}]

    def build(self, e, p):
        t = e.fresh_int('t', -5, 25)
        if p.get('tk') == 'float':
            t = SymFloat(iz=t.z)
        elif p.get('tk') == 'bool':
            t = e.fresh_bool('t')
        return {'a': dates.fresh_datetime_ord(e, 'a', ORD_1900_03_01), 't': t}

    def run(self, env, inp, p):
        return [self.parse_with(env, 'WEEKDAY(va,vt)', {'va': inp['a'], 'vt': inp['t']}),
                self.parse_with(env, 'WEEKDAY(va)', {'va': inp['a']})]

    def post(self, env, inp, out, p):
        if isinstance(out, Raised) or not all(is_record(o) for o in out):
            return False
        a = as_sym_dt(inp['a'])
        t = inp['t']
        if isinstance(t, (bool, SymBool)):
            t = mkint(zint(t))        # TRUE is numbering type 1, FALSE is 0 (no such type)
        # 0001-01-01 (ordinal 1) was a Monday: ordinal mod 7 = 1 Monday ... 6 Saturday, 0 Sunday
        om = fmod(a.ord, z3.IntVal(7))
        sun1 = om + 1                               # Sunday=1 .. Saturday=7
        mon1 = z3.If(om == 0, 7, om)                # Monday=1 .. Sunday=7
        w, w1 = out
        return And(Implies(t == 1, int_eq(w, mkint(sun1))), Implies(t == 2, int_eq(w, mkint(mon1))),
                   Implies(t == 3, int_eq(w, mkint(mon1 - 1))), Implies(Or(t < 1, t > 3), err_is(w, '#NUM!')),
                   int_eq(w1, mkint(sun1)))


@register
class Edate(_D):
    name = 'C14.edate'
    doc = 'EDATE moves by whole months keeping the day of month, clamped to the length of the target month; #NUM! outside 1900..9999'
    functions = ('dateandtime.EDATE',)
    bounds = 'every date 1900..9999 (month split), every integer offset in -120000..120000, fractional offsets in +-600 (truncated towards zero)'
    case_timeout_s = {'quick': 200, 'thorough': 1500}

    def cases(self, tier):
        return [{'month': m, 'kf': False} for m in range(1, 13)] + [{'month': m, 'kf': True} for m in (1, 3, 4, 12)]

    def build(self, e, p):
        if p.get('kf'):
            # a fractional month offset is truncated towards zero (as INT does not: -2.5 months is 2 months back)
            k = e.fresh_real('k', -600, 600)
            return {'a': dates.fresh_datetime(e, 'a', month=p['month']), 'k': k}
        return {'a': dates.fresh_datetime(e, 'a', month=p['month']), 'k': e.fresh_int('k', -120000, 120000)}

    def run(self, env, inp, p):
        return self.parse_with(env, 'EDATE(va,vk)', {'va': inp['a'], 'vk': inp['k']})

    def post(self, env, inp, out, p):
        if not is_record(out):
            return False
        a = as_sym_dt(inp['a'])
        y, m, d = a._ymd()
        if p.get('kf'):
            kr = _floatval_nofork(inp['k'])
            k = z3.If(kr >= 0, z3.ToInt(kr), -z3.ToInt(-kr))
        else:
            k = zint(inp['k'])
        idx = 12 * y + (m - 1) + k
        y2 = fdiv(idx, z3.IntVal(12))
        m2 = fmod(idx, z3.IntVal(12)) + 1
        d2 = z3.If(d < z_days_in_month(y2, m2), d, z_days_in_month(y2, m2))
        outside = mkbool(z3.simplify(z3.Or(y2 < 1900, y2 > 9999)))
        r = out['result']
        if out['error'] is not None:
            return And(out['error'] == '#NUM!', outside)
        if not is_dt(r):
            return False
        ry, rm, rd = as_sym_dt(r)._ymd()
        return And(Not(outside), mkbool(z3.simplify(z3.And(ry == y2, rm == m2, rd == d2, as_sym_dt(r).us == 0))))


@register
class IsoText(_D):
    name = 'C14.iso_text'
    doc = 'the same components are read from ISO date-time text: YEAR / MONTH / DAY / HOUR / MINUTE / SECOND of the text ' \
          'YYYY-MM-DD, YYYY-MM-DD hh:mm, YYYY-MM-DDThh:mm, YYYY-MM-DD hh:mm:ss and YYYY-MM-DDThh:mm:ss'
    functions = ('dateandtime.YEAR', 'dateandtime.MONTH', 'dateandtime.DAY', 'dateandtime.HOUR', 'dateandtime.MINUTE',
                 'dateandtime.SECOND', 'utils.parse_date', 'helper.number.to_number')
    bounds = 'every valid date 1900..9999 and time of day, the digits of the text symbolic (month split); the conversion of the ' \
             'text is dateutil.parser.parse under its ISO 8601 contract (a stub: text of exactly this shape with valid fields ' \
             'denotes that date-time), whatever else the code does with the text runs symbolically'
    outside = ('other spellings of dates and times (dateutil\'s free-form parsing is not encoded)', 'fractional seconds, time zones')
    stubs = ('dateutil.parser.parse: ISO 8601 contract for YYYY-MM-DD[( |T)hh:mm[:ss]], validated against the real dateutil in the selftest',)
    needs_ply = False

    def cases(self, tier):
        ms = range(1, 13)
        return [{'month': m, 'shape': sh, 'sep': sep} for m in ms for sh in (10, 16, 19) for sep in ((' ', 'T') if sh > 10 else ('',))]

    def build(self, e, p):
        from ..values import SymStr
        from .common import DIGITS
        d = lambda nm, n: e.fresh_str(nm, n, alphabet=DIGITS).cps
        lit = lambda t: tuple(ord(c) for c in t)
        num = lambda cs: z3.simplify(sum((c - 48) * 10 ** (len(cs) - 1 - i) for i, c in enumerate(cs)))
        Y, D = d('y', 4), d('d', 2)
        M = lit('%02d' % p['month'])
        y, dd = num(Y), num(D)
        e.add(y >= 1900, dd >= 1, dd <= z_days_in_month(y, z3.IntVal(p['month'])))
        cps = Y + lit('-') + M + lit('-') + D
        comp = {'y': y, 'mo': z3.IntVal(p['month']), 'd': dd, 'h': z3.IntVal(0), 'mi': z3.IntVal(0), 's': z3.IntVal(0)}
        if p['shape'] >= 16:
            H, MI = d('h', 2), d('mi', 2)
            e.add(num(H) <= 23, num(MI) <= 59)
            cps = cps + lit(p['sep']) + H + lit(':') + MI
            comp['h'], comp['mi'] = num(H), num(MI)
        if p['shape'] == 19:
            S = d('s', 2)
            e.add(num(S) <= 59)
            cps = cps + lit(':') + S
            comp['s'] = num(S)
        e.iso_components = comp
        return {'text': SymStr(cps)}

    def _components(self, env, inp):
        if env.symbolic:
            c = E.cur().iso_components
            return [mkint(c[k]) for k in ('y', 'mo', 'd', 'h', 'mi', 's')]
        t = inp['text']
        return [int(t[0:4]), int(t[5:7]), int(t[8:10]), int(t[11:13]) if len(t) >= 16 else 0, int(t[14:16]) if len(t) >= 16 else 0,
                int(t[17:19]) if len(t) == 19 else 0]

    def run(self, env, inp, p):
        vs = {'vt': inp['text']}
        return [self.parse_with(env, '%s(vt)' % f, vs) for f in ('YEAR', 'MONTH', 'DAY', 'HOUR', 'MINUTE', 'SECOND')]

    def post(self, env, inp, out, p):
        if isinstance(out, Raised) or not all(is_record(o) for o in out):
            return False
        return And(*[int_eq(o, w) for o, w in zip(out, self._components(env, inp))])
