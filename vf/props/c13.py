"""C13 - date serial numbers: invertible, monotone, Excel 1900 system."""
import datetime
import z3
from ..harness import Harness, register, Raised
from ..spec import And, Or, Not, Implies, Iff, tb
from ..values import SymInt, SymBool, SymFloat, zint, mkint, mkbool, zbool
from .. import dates
from ..dates import SymDateTime, as_sym_dt, US_DAY
from .common import ok_result, err_is, is_record, isint, isnum

ORD_1899_12_30 = datetime.date(1899, 12, 30).toordinal()
ORD_1900_03_01 = datetime.date(1900, 3, 1).toordinal()
MS_DAY = 86400000


def real_of(v):
    """z3 Real term of a numeric result (int / float, symbolic or concrete)"""
    from ..values import _floatval_nofork
    return _floatval_nofork(v)


def dt_key(t):
    """microseconds since ordinal 0, as a z3 Int"""
    t = as_sym_dt(t)
    return t.ord * US_DAY + t.us


def excel_serial_real(t):
    """days since 1899-12-30 with the time of day as the fraction (exact rational) -- the statement's definition"""
    t = as_sym_dt(t)
    return z3.ToReal(t.ord - ORD_1899_12_30) + z3.ToReal(t.us) / US_DAY


def is_dt(v):
    return isinstance(v, (SymDateTime, datetime.datetime))


class _DateHarness(Harness):
    prop = 'C13'
    stubs = ('IEEE double arithmetic modelled as exact for integer-valued results below 2^53 and as relative error '
             '2^-53 per operation otherwise (sound over-approximation; witnesses are replayed)',
             'timedelta(seconds=float) rounds to the nearest microsecond (|error| <= 0.5 us)')

    def months(self, tier):
        return list(range(1, 13))


@register
class RoundTrip(_DateHarness):
    name = 'C13.roundtrip'
    doc = 'parse_date(serialize_date(t)) = t (exact for whole days, within 0.5 ms with a time part) for every date-time ' \
          'from 1900-01-01; serial equals the Excel 1900 serial from 1900-03-01'
    functions = ('utils.serialize_date', 'utils.parse_date', 'utils.epoch_seconds')
    bounds = 'every day 1900-01-01..9999-12-31 (month split, year and day symbolic), time of day at ms resolution'

    def cases(self, tier):
        return [{'month': m, 'time': tm} for m in self.months(tier) for tm in (False, True)]

    def build(self, e, p):
        return {'t': dates.fresh_datetime(e, 't', month=p['month'], with_time=p['time'])}

    def run(self, env, inp, p):
        ut = env.mod('formulas.utils')
        s = ut.serialize_date(inp['t'])
        return (s, ut.parse_date(s))

    def post(self, env, inp, out, p):
        if isinstance(out, Raised):
            return False
        s, back = out
        t = inp['t']
        if not is_dt(back) or not isnum(s):
            return False
        d = dt_key(back) - dt_key(t)
        if p['time']:
            close = z3.And(d <= 500, d >= -500)
        else:
            close = d == 0
        from_march = as_sym_dt(t).ord >= ORD_1900_03_01
        sr = real_of(s)
        xs = excel_serial_real(t)
        if p['time']:
            tol = z3.RealVal('1/100000000')
            excel = z3.And(sr - xs <= tol, xs - sr <= tol)
        else:
            excel = sr == xs
        return mkbool(z3.simplify(z3.And(close, z3.Implies(from_march, excel))))


@register
class Monotone(_DateHarness):
    name = 'C13.monotone'
    doc = 'serials increase strictly with time: t < u implies serial(t) < serial(u)'
    functions = ('utils.serialize_date',)
    bounds = 'all pairs of date-times from 1900-01-01 to 9999-12-31: whole days exactly; with a time part for pairs at least 1 ms apart; ' \
             'an instant at microsecond resolution 250..1000 us before a midnight (years 1900..2200) against that midnight'

    def cases(self, tier):
        return [{'time': False}, {'time': True}, {'time': 'us'}]

    def build(self, e, p):
        if p['time'] == 'us':
            # microsecond resolution in the last millisecond of a day against the next midnight (an instant that a
            # conversion rounding to whole milliseconds would push into the next day); years 1900..2200, where the float
            # error of the conversion is far below the 250 microseconds kept between the two instants
            import datetime as _d
            t = dates.fresh_datetime_ord(e, 't', _d.date(1900, 3, 1).toordinal(), _d.date(2200, 1, 1).toordinal(), with_time=False)
            us = z3.Int('t_us')
            e.bounded(us, dates.US_DAY - 1000, dates.US_DAY - 250)
            t = dates.SymDateTime(t.ord, us)
            return {'t': t, 'u': dates.SymDateTime(t.ord + 1, z3.IntVal(0))}
        return {'t': dates.fresh_datetime_ord(e, 't', with_time=p['time']), 'u': dates.fresh_datetime_ord(e, 'u', with_time=p['time'])}

    def run(self, env, inp, p):
        ut = env.mod('formulas.utils')
        return (ut.serialize_date(inp['t']), ut.serialize_date(inp['u']))

    def post(self, env, inp, out, p):
        if isinstance(out, Raised):
            return False
        st, su = out
        if not isnum(st) or not isnum(su):
            return False
        lt = dt_key(inp['t']) < dt_key(inp['u'])
        return mkbool(z3.simplify(z3.Implies(lt, real_of(st) < real_of(su))))


@register
class SerialToDate(_DateHarness):
    name = 'C13.serial_to_date'
    doc = 'serialize_date(parse_date(n)) = n for every integer serial 61..2958465, and parse_date(n) is the day n days after 1899-12-30'
    functions = ('utils.parse_date', 'utils.serialize_date')
    bounds = 'every integer serial from 61 to 2958465 (9999-12-31)'

    def build(self, e, p):
        return {'n': e.fresh_int('n', 61, 2958465)}

    def run(self, env, inp, p):
        ut = env.mod('formulas.utils')
        d = ut.parse_date(inp['n'])
        return (d, ut.serialize_date(d))

    def post(self, env, inp, out, p):
        if isinstance(out, Raised):
            return False
        d, s = out
        if not is_dt(d) or not isnum(s):
            return False
        n = zint(inp['n'])
        dd = as_sym_dt(d)
        return mkbool(z3.simplify(z3.And(dd.ord == ORD_1899_12_30 + n, dd.us == 0, real_of(s) == z3.ToReal(n))))


@register
class ThroughParse(_DateHarness):
    name = 'C13.formulas'
    doc = 'through Parser.parse: date + n is the date n days later, date - date the days between, DATEVALUE / N / DAYS see the same serial'
    functions = ('operators.evaluate_arithmetic', 'operators.value_and_type', 'dateandtime.DATEVALUE', 'dateandtime.DAYS',
                 'information.N', 'utils.serialize_date', 'utils.parse_date')
    bounds = 'whole-day dates 1900-03-01..9999-12-31 (month split), offsets n with the result inside that range; the dates also as ' \
             'instances of a host subclass of datetime.datetime'

    def cases(self, tier):
        ms = self.months(tier)
        # host = the dates are instances of a subclass of datetime.datetime (an application's own timestamp class)
        return [{'month': m} for m in ms] + [{'month': m, 'host': 1} for m in ms[:2]]

    def build(self, e, p):
        t = dates.fresh_datetime(e, 't', month=p['month'])
        u = dates.fresh_datetime_ord(e, 'u')
        if p.get('host'):
            t, u = dates.as_host_stamp(t), dates.as_host_stamp(u)
        n = e.fresh_int('n', -3000000, 3000000)
        e.add(t.ord >= ORD_1900_03_01, u.ord >= ORD_1900_03_01)
        e.add(t.ord + n.z >= ORD_1900_03_01, t.ord + n.z <= dates.MAXORD)
        return {'t': t, 'u': u, 'n': n}

    def run(self, env, inp, p):
        vs = {'vt': inp['t'], 'vu': inp['u'], 'vn': inp['n']}
        return [self.parse_with(env, f, vs) for f in ('vt+vn', 'vt-vu', 'DATEVALUE(vt)', 'N(vt)', 'DAYS(vt,vu)', 'vn+vt')]

    def post(self, env, inp, out, p):
        if isinstance(out, Raised) or not all(ok_result(o) for o in out):
            return False
        plus, minus, dv, nn, days, rplus = [o['result'] for o in out]
        t, u, n = as_sym_dt(inp['t']), as_sym_dt(inp['u']), zint(inp['n'])
        if not (is_dt(plus) and is_dt(rplus) and isnum(minus) and isnum(dv) and isnum(nn) and isnum(days)):
            return False
        ser_t = z3.ToReal(t.ord - ORD_1899_12_30)
        diff = z3.ToReal(t.ord - u.ord)
        pl, rpl = as_sym_dt(plus), as_sym_dt(rplus)
        return mkbool(z3.simplify(z3.And(pl.ord == t.ord + n, pl.us == 0, rpl.ord == t.ord + n, rpl.us == 0,
                                         real_of(minus) == diff, real_of(days) == diff,
                                         real_of(dv) == ser_t, real_of(nn) == ser_t)))


@register
class DaysWithTimes(_DateHarness):
    name = 'C13.days_times'
    doc = 'DAYS, date subtraction, DATEVALUE and N see the same serial also for date-times with a time part and for dates ' \
          'before 1 March 1900: DAYS(t,u) = t-u = DATEVALUE(t)-DATEVALUE(u), N(t) = DATEVALUE(t)'
    functions = ('dateandtime.DAYS', 'dateandtime.DATEVALUE', 'information.N', 'operators.evaluate_arithmetic', 'utils.serialize_date')
    bounds = 'all pairs of date-times 1900-01-02..9999-12-31 at millisecond resolution (and whole days)'

    def cases(self, tier):
        return [{'time': False}, {'time': True}]

    def build(self, e, p):
        lo = datetime.date(1900, 1, 2).toordinal()
        return {'t': dates.fresh_datetime_ord(e, 't', lo, None, with_time=p['time']),
                'u': dates.fresh_datetime_ord(e, 'u', lo, None, with_time=p['time'])}

    def run(self, env, inp, p):
        vs = {'vt': inp['t'], 'vu': inp['u']}
        return [self.parse_with(env, f, vs) for f in ('DAYS(vt,vu)', 'vt-vu', 'DATEVALUE(vt)-DATEVALUE(vu)', 'N(vt)', 'DATEVALUE(vt)')]

    def post(self, env, inp, out, p):
        if isinstance(out, Raised) or not all(ok_result(o) for o in out):
            return False
        days, minus, dv, n, d1 = [o['result'] for o in out]
        if not all(isnum(x) for x in (days, minus, dv, n, d1)):
            return False
        return And(days == dv, minus == dv, n == d1)
