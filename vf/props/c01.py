"""C01 - parse() is total: it always returns a well-formed result/error record."""
import time
import z3
from ..harness import Harness, register, Raised
from ..spec import And, Or, Not, tb
from ..values import SymInt, SymBool, SymStr, SymFloat
from .. import engine as E
from .. import lr
from . import pool
from .common import CODES, numtext, LETTERS, DIGITS


def well_formed(env, out):
    """the record of the statement: exactly result + error; error empty or canonical; error set => result empty; result
    never an error object"""
    if isinstance(out, Raised) or not isinstance(out, dict):
        return False
    if set(out.keys()) != {'result', 'error'}:
        return False
    err, res = out['error'], out['result']
    if err is not None and not (isinstance(err, str) and err in CODES):
        return False
    if err is not None and res is not None:
        return False
    if env.is_error(res):
        return False
    return True


# partition of the code-point space by the first character (each class is one case; the character stays symbolic in it)
def first_char_classes():
    out = [(0, 31), (32, 32)]
    out += [(c, c) for c in range(33, 48)]
    out += [(48, 57)]
    out += [(c, c) for c in range(58, 65)]
    out += [(65, 90)]
    out += [(c, c) for c in range(91, 97)]
    out += [(97, 122)]
    out += [(c, c) for c in range(123, 127)]
    out += [(127, 0x10FFFF)]
    return out


@register
class AnyString(Harness):
    name = 'C01.strings'
    prop = 'C01'
    needs_ply = True
    termination = True
    doc = 'parse(s) returns a well-formed record for every string s: the whole text is symbolic and goes through ply\'s real ' \
          'master regex (symbolic regex matching) and the real LALR driver'
    functions = ('Parser.parse', 'grammarparser.parser.Parser.parse', 'ply.lex.Lexer.token', 'ply.yacc.LRParser.parseopt_notrack',
                 'grammarparser.lexer.* (all token rules)', 'grammarparser.parser.FormulaParser.* (all actions)', 'error.from_message',
                 'Parser.call_function', 'Parser.call_variable', 'Parser.call_cell_value', 'Parser.call_range_value')
    bounds = 'every string of length 0..3 (quick) / 0..4 (thorough) over all 1114112 code points (partitioned by the class of ' \
             'the first character for length >= 3)'
    outside = ('longer strings (the deeper grammar is reached by the skeleton harnesses instead)',)
    case_timeout_s = {'quick': 280, 'thorough': 3000}
    max_decisions = 20000

    def cases(self, tier):
        out = [{'len': 0}, {'len': 1}, {'len': 2}]
        for L in ((3,) if tier == 'quick' else (3, 4)):
            for k, (lo, hi) in enumerate(first_char_classes()):
                out.append({'len': L, 'lo': lo, 'hi': hi})
        return out

    def build(self, e, p):
        if p['len'] == 0:
            return {'s': ''}
        s = e.fresh_str('s', p['len'])
        if 'lo' in p:
            e.add(s.cps[0] >= p['lo'], s.cps[0] <= p['hi'])
        return {'s': s}

    def run(self, env, inp, p):
        return env.Parser().parse(inp['s'])

    def post(self, env, inp, out, p):
        return well_formed(env, out)


@register
class TokenSoup(Harness):
    name = 'C01.tokens'
    prop = 'C01'
    doc = 'the LR driver built from the real tables halts (accept or error) on every token sequence over the FULL terminal ' \
          'alphabet, provided the grammar actions return -- the unwinding assertion of the bounded model'
    functions = ('grammarparser.parser_FormulaParser_parsetab (action/goto tables as built by ply.yacc)',)
    bounds = 'every token sequence of length 1..3 (quick) / 1..4 (thorough) over all 36 terminals'
    case_timeout_s = {'quick': 280, 'thorough': 3000}

    def cases(self, tier):
        return [{'N': n} for n in range(1, 4 if tier == 'quick' else 5)]

    def run(self, env, inp, p):
        return None

    def post(self, env, inp, out, p):
        return True

    def decide(self, env, p, tier, replay, deadline):
        t0 = time.time()
        Pz = env.Parser().parser
        terms = ['$end'] + [t for t in Pz.tokens if t != 'WHITESPACE']
        m = lr.LRModel(Pz.yacc, p['N'], terms=terms)
        res = dict(paths=1, status={'ok': 1}, violations=[], known=[], undecided=[], samples=[], replays=0, spurious=0, reach=1,
                   solver_calls=0, solver_time=0.0, nonlinear=0)
        s = m.solver()
        s.set('timeout', max(1000, int((deadline - time.time()) * 1000)))
        s.add(m.lr_unfinished)
        t = time.time()
        r = s.check()
        res['solver_calls'] += 1
        res['solver_time'] = round(time.time() - t, 3)
        if r == z3.sat:
            toks = m.tokens_of(s.model())
            res['violations'].append({'inputs': {'d': {'tokens': toks}}, 'replay': {'status': 'violated', 'outcome': 'LR driver does not halt within 3N+3 steps on %s' % toks}})
        elif r != z3.unsat:
            res['undecided'].append({'why': 'halting query: %s' % r})
        s2 = m.solver()
        s2.add(m.lr_ok)
        if s2.check() == z3.sat:
            res['samples'].append({'tokens': m.tokens_of(s2.model()), 'harness': self.name})
        else:
            res['samples'].append({'tokens': [], 'note': 'no accepted sequence of this length', 'harness': self.name})
        res['lr_tables'] = {'reachable_states': len(m.reach), 'action_entries': m.n_act, 'terminals': len(terms) - 1}
        res['wall'] = round(time.time() - t0, 2)
        return res


CATALOGUE = ['SUM(va,2)*3', 'IF(va>1,"x",vb)', '{1,2;3,4}', 'A1:B2', '$A$1+va', '-va%', '1.5+.5', '2^3', 'SUM({va,vb},A1:A3)',
             '"ab"&va', "'q'&1", 'NOT(TRUE)', 'IFERROR(1/0,va)', 'va<>vb', 'va>=vb', 'CONCATENATE("a";"b")', 'INDEX({1\\2},1)',
             '#N/A', 'TRUE', 'va.vb', ' SUM( va , vb ) ', 'SUM(,va,)', 'ROUND(va,0)', 'A1']


@register
class Truncated(Harness):
    name = 'C01.truncated'
    prop = 'C01'
    doc = 'every prefix and every suffix of a catalogue of well-formed formulas (truncated / unbalanced input) gives a well-formed record'
    functions = ('Parser.parse', 'grammarparser.parser.FormulaParser.p_error')
    bounds = '%d formulas, all their prefixes and suffixes; variable values symbolic integers' % len(CATALOGUE)

    def cases(self, tier):
        return [{'i': i} for i in range(len(CATALOGUE))]

    def build(self, e, p):
        return {'a': e.fresh_int('a', -1000, 1000), 'b': e.fresh_int('b', -1000, 1000)}

    def run(self, env, inp, p):
        f = CATALOGUE[p['i']]
        outs = []
        texts = [f[:k] for k in range(len(f) + 1)] + [f[k:] for k in range(1, len(f))]
        for t in texts:
            try:
                outs.append((t, self.parse_with(env, t, {'va': inp['a'], 'vb': inp['b']})))
            except Exception as ex:
                outs.append((t, Raised(ex)))
        return outs

    def post(self, env, inp, out, p):
        if isinstance(out, Raised):
            return False
        return all(well_formed(env, o) for t, o in out)


# ------------------------------------------------------------------------------------------------
FULL_POOL = ['int', 'float', 'bool', 'blank', 'numtext', 'text', 'special', 'date', 'error', 'array', 'nested']
SPECIAL_TEXTS = ['inf', '-inf', 'nan', '1e999', '1e5', '-2.5E-3', '', ' ', '0x10', '1_0', '\uff11\uff12', '1,5', 'TRUE', '#N/A', ',', '2020-02-30', 'a' * 40]
SPECIAL_FLOATS = [float('inf'), float('-inf'), float('nan'), 1e308, 5e-324, -0.0]
REDUCED_POOL = ['int', 'text', 'special', 'blank', 'error', 'array']
# functions whose body formats or parses free text in ways the engine does not model (declared, not silently skipped)
UNMODELLED_FUNCS = {'TEXT'}


SMALL_INT_FUNCS = {'ROMAN', 'FACTDOUBLE', 'FACT'}   # one path per integer value: the wide range would only enumerate


CONCRETE_SAMPLES = {'int': [0, 1, -1, 2, 16, 40], 'float': [0.5, -2.5, 3.0], 'bool': [True, False], 'numtext': ['12', '07'],
                    'text': ['bc'], 'array': [[1, 2]], 'nested': [[[1, 2], [3, 4]]]}


def pool_value(env, e, tag, name, arity=1, fn=None, concrete=False, lim=None):
    if concrete and tag in CONCRETE_SAMPLES:
        # partner of a 'special' value: non-finite doubles do not mix with symbolic arithmetic, so the partner is drawn from
        # a few concrete representatives (an enumeration, stated in the bounds)
        vals = CONCRETE_SAMPLES[tag]
        if arity >= 3:
            vals = vals[1:3] + vals[-1:]       # fewer partners beside an odd value at arity 3-4: 1, -1 / 2020
        return vals[e.choose(len(vals))]
    if tag == 'int' and fn in SMALL_INT_FUNCS:
        # (the second argument - ROMAN's form - stays smaller still: every pair of values is a path of its own)
        return e.fresh_int(name, -40, 40) if arity <= 1 else e.fresh_int(name, -12, 12) if name == 'x0' else e.fresh_int(name, -6, 6)
    if tag == 'float' and fn in SMALL_INT_FUNCS:
        from ..values import SymFloat
        return SymFloat(iz=e.fresh_int(name, -40, 40).z) if e.choose(2) else 2.5
    if tag == 'int':
        # a lone argument ranges wide (loops bounded by argument validation must terminate); with several arguments the
        # integers stay small because they also serve as exponents, radices, widths and digit counts
        lim = lim or (2 ** 16 if arity <= 1 else 40)
        return e.fresh_int(name, -lim, lim)
    if tag == 'float':
        # integer-valued doubles symbolically, plus two concrete fractions (text rendering of arbitrary fractions - the
        # shortest-repr algorithm - is not modelled)
        k = e.choose(3)
        if k == 0:
            from ..values import SymFloat
            v = e.fresh_int(name, -(2 ** 16), 2 ** 16)
            return SymFloat(iz=v.z)
        return (0.5, -2.5)[k - 1]
    if tag == 'bool':
        return e.fresh_bool(name)
    if tag == 'blank':
        return None
    if tag == 'special':
        # concrete odd values: texts float()/int() give a special meaning to, non-finite and extreme doubles
        k = e.choose(len(SPECIAL_TEXTS) + len(SPECIAL_FLOATS))
        return SPECIAL_TEXTS[k] if k < len(SPECIAL_TEXTS) else SPECIAL_FLOATS[k - len(SPECIAL_TEXTS)]
    if tag == 'numtext':
        return numtext(e, name, 2)[0]
    if tag == 'text':
        return e.fresh_str(name, 2, alphabet=[(ord(c), ord(c)) for c in 'bcdghklmopqrsuvwxz'])
    if tag == 'date':
        return pool.make(e, 'date', name)
    if tag == 'error':
        return env.error_by_code(CODES[1 + e.choose(8)])
    if tag == 'array':
        return [e.fresh_int(name + '0', -99, 99), e.fresh_int(name + '1', -99, 99)]
    if tag == 'nested':
        return [[e.fresh_int(name + '00', -9, 9), e.fresh_int(name + '01', -9, 9)], [e.fresh_int(name + '10', -9, 9), e.fresh_int(name + '11', -9, 9)]]
    raise ValueError(tag)


@register
class Functions(Harness):
    name = 'C01.functions'
    prop = 'C01'
    termination = True
    doc = 'every registered function at every arity 0..4 (quick: arity 3-4 with a reduced pool) over a pool holding a value of every type ' \
          'returns a well-formed record and terminates'
    functions = ('every function in formulas.dispatcher._registry_', 'Parser.parse', 'Parser.call_function', 'error.from_message')
    bounds = 'arguments: special (with concrete partners; 17 concrete odd texts such as inf, nan, 1e999, fullwidth digits and 6 non-finite / extreme doubles), int (|n| <= 2^16 alone, |n| <= 40 beside other arguments), float (integer-valued |x| <= 2^16, 0.5, -2.5), logical, blank, numeric text (2 digits), text (2 letters), date, any of 8 errors, ' \
             'flat array of 2, nested 2x2; quick: arity 0-1 full pool, arity 2 reduced pool {int, text, special, blank, error, array}, arity 3-4 (functions whose ' \
             'signature takes them) all-integer (|n| <= 6) and one odd value in each position beside integers; ' \
             'thorough: arity 0-2 full pool, arity 3-4 reduced pool; termination = iteration budget of the engine, confirmed by ' \
             'replay under a line-event budget'
    outside = ('the cost of single C-level big-number operations (9^999999999, FACT(10^6)): the budget counts Python-level steps',
               'TEXT(value, format): number-format mini-language is not modelled (declared unmodelled, bug-hunting replay only)')
    max_ticks = 6000
    step_budget = 400000
    case_timeout_s = {'quick': 120, 'thorough': 600}

    def names(self, env=None):
        import importlib
        try:
            import sys
            return sorted(sys.modules['hotxlfp.formulas'].dispatcher._registry_)
        except Exception:
            return []

    def cases(self, tier):
        # the registry is read from the working tree at run time
        import sys
        fm = sys.modules.get('hotxlfp.formulas')
        if fm is None:
            from .. import loader
            return [{'defer': True}]
        names = sorted(fm.dispatcher._registry_)
        out = []
        for n in names:
            for c in self._cases_for(n, tier):
                if n in UNMODELLED_FUNCS and len(c['tags']) >= 2 and c['tags'][1] in ('text', 'numtext'):
                    continue        # TEXT(value, symbolic format text): the format mini-language is not modelled
                out.append(c)
        return out

    def _capacity(self, n):
        """how many positional arguments the registered function takes (read from the real function object)"""
        import sys
        import inspect
        try:
            f = sys.modules['hotxlfp.formulas'].dispatcher._registry_[n]
            ps = inspect.signature(f).parameters.values()
        except Exception:
            return 4
        if any(q.kind is q.VAR_POSITIONAL for q in ps):
            return 4
        return len([q for q in ps if q.kind in (q.POSITIONAL_ONLY, q.POSITIONAL_OR_KEYWORD)])

    def _cases_for(self, n, tier):
        return [c for c in self._cases_for0(n, tier) if not (n in SMALL_INT_FUNCS and 'special' in c['tags'])]

    def _cases_for0(self, n, tier):
        # (FACT / FACTDOUBLE / ROMAN of the extreme doubles in the special pool are single C-level big-number operations:
        #  outside the claim, see `outside`)
        out = []
        if True:
            out.append({'fn': n, 'tags': []})
            for a in FULL_POOL:
                out.append({'fn': n, 'tags': [a]})
            second = FULL_POOL if tier == 'thorough' else REDUCED_POOL
            first = FULL_POOL if tier == 'thorough' else REDUCED_POOL
            for a in first:
                for b in second:
                    out.append({'fn': n, 'tags': [a, b]})
            if tier != 'thorough':
                # arity 3 and 4 in the quick tier: only for functions whose signature takes that many arguments, one odd
                # value (non-finite, extreme, odd text) in each position beside integers, and all-integer arguments
                cap = self._capacity(n)
                for k in (3, 4):
                    if cap >= k:
                        out.append({'fn': n, 'tags': ['int'] * k, 'lim': 6})
                        for pos in range(k):
                            out.append({'fn': n, 'tags': ['int'] * pos + ['special'] + ['int'] * (k - pos - 1)})
            if tier == 'thorough':
                for a in REDUCED_POOL:
                    for b in REDUCED_POOL:
                        for c in REDUCED_POOL:
                            out.append({'fn': n, 'tags': [a, b, c]})
                for a in ('int', 'text', 'blank'):
                    for b in ('int', 'array'):
                        for c in ('int', 'error'):
                            for d in ('int', 'text'):
                                out.append({'fn': n, 'tags': [a, b, c, d]})
        return out

    def run(self, env, inp, p):
        if env.symbolic:
            e = E.cur()
            inp['args'] = [pool_value(env, e, t, 'x%d' % i, len(p['tags']), p['fn'], concrete=('special' in p['tags']), lim=p.get('lim')) for i, t in enumerate(p['tags'])]
        names = ['v%s' % 'abcd'[i] for i in range(len(p['tags']))]
        return self.parse_with(env, '%s(%s)' % (p['fn'], ','.join(names)), dict(zip(names, inp['args'])))

    def post(self, env, inp, out, p):
        return well_formed(env, out)


EXCS = ['ValueError', 'TypeError', 'KeyError', 'ZeroDivisionError', 'RecursionError', 'StopIteration', 'SyntaxError',
        'RuntimeError', 'XLError', 'XLErrorOdd', 'IndexError', 'AttributeError']
SKELETONS = ['G(va)+1', 'SUM(G(1),va)', 'IF(G(0),1,2)', 'va', 'A1', 'A1:B2', 'SUM(A1:B2)', '-G(2)', 'G(G(1))', 'G(1)&"x"', 'G(1)=va', '{1,2}+G(1)']


@register
class HostFaults(Harness):
    name = 'C01.hostfaults'
    prop = 'C01'
    doc = 'whatever a registered custom function or event listener does - return a value of any type or raise - parse returns a ' \
          'well-formed record'
    functions = ('Parser.parse', 'Parser.call_function', 'Parser.call_variable', 'Parser.call_cell_value', 'Parser.call_range_value',
                 'tinyemitter.Emitter.emit', 'error.from_message')
    bounds = '%d formula skeletons x 5 callback kinds (custom function, function / variable / cell / range listener) x behaviour: ' \
             'return a value of one of 10 type tags, or raise one of %d exception kinds (including an error value and an error ' \
             'object with non-canonical text)' % (len(SKELETONS), len(EXCS))
    outside = ('BaseExceptions that are not Exceptions (KeyboardInterrupt, SystemExit)', 'exception classes whose __str__ raises')

    def cases(self, tier):
        out = []
        for i in range(len(SKELETONS)):
            for kind in ('func', 'on_function', 'on_variable', 'on_cell', 'on_range'):
                for what in ('raise', 'return'):
                    out.append({'sk': i, 'kind': kind, 'what': what})
        return out

    def run(self, env, inp, p):
        e = E.cur() if env.symbolic else None
        if env.symbolic:
            if p['what'] == 'raise':
                inp['exc'] = EXCS[e.choose(len(EXCS))]
                inp['shape'] = e.choose(4)
                inp['code'] = CODES[e.choose(len(CODES))]
                inp['val'] = None
            else:
                tag = FULL_POOL[e.choose(len(FULL_POOL))]
                if '&' in SKELETONS[p['sk']] and tag in ('float', 'date'):
                    tag = 'int'      # text rendering of floats / dates (repr algorithm) is not modelled
                inp['tag'] = tag
                inp['val'] = pool_value(env, e, tag, 'r')
            inp['a'] = 3 if inp.get('tag') == 'special' else e.fresh_int('a', -100, 100)
        err = env.error

        def behave(*args):
            if p['what'] == 'return':
                return inp['val']
            x = inp['exc']
            if x == 'XLError':
                raise env.error_by_code(inp['code'])
            if x == 'XLErrorOdd':
                raise err.XLError('#FOO')
            import builtins
            cls = getattr(builtins, x)
            shape = inp.get('shape', 0)
            if shape == 1:
                raise cls()                       # no arguments at all
            if shape == 2:
                raise cls(['A1', 'B2'])           # unhashable first argument
            if shape == 3:
                raise cls(7, 'x')                 # non-text arguments
            raise cls('host fault')
        P = env.Parser()
        P.set_variable('va', inp['a'])
        if p['kind'] == 'func':
            P.set_function('G', behave)
        else:
            P.set_function('G', lambda *a: 7)
            ev = {'on_function': 'callFunction', 'on_variable': 'callVariable', 'on_cell': 'callCellValue', 'on_range': 'callRangeValue'}[p['kind']]
            if p['what'] == 'return':
                P.on(ev, lambda *a: a[-1](inp['val']))
            else:
                P.on(ev, lambda *a: behave())
        return P.parse(SKELETONS[p['sk']])

    def post(self, env, inp, out, p):
        return well_formed(env, out)


LONG_TEMPLATES = [
    ('unterminated string', 'CONCATENATE("', 'X', ', 1)'),
    ('unterminated single-quoted string', "LEN('", 'X', ')'),
    ('long identifier', '', 'L', '+1'),
    ('long function name', '', 'L', '(1)'),
    ('long string literal', '"', 'X', '"&"a"'),
    ('long digit run', '1', 'D', '+1'),
    ('nested parentheses', '((((((((((((((((((((', 'D', '))))))))))))))))))))'),
    ('operator run', '1', 'O', '1'),
    ('unterminated string of escape pairs', 'LEN("', 'P', ')'),
    ('unterminated single-quoted string of escape pairs', "'", 'P', ''),
    ('string of escaped quotes', '"', 'Q', '"'),
    ('dotted identifier', 'a', 'I', '+1'),
    ('error-literal-shaped run', '#', 'E', '!1'),
    ('cell-shaped run', '$', 'C', '$'),
]


@register
class LongTexts(Harness):
    name = 'C01.longtexts'
    prop = 'C01'
    needs_ply = True
    termination = True
    doc = 'parse returns in bounded time on long inputs of the shapes that stress the lexer: unterminated and long string ' \
          'literals, long identifiers and digit runs, deep parentheses, operator runs (the run itself is symbolic text)'
    functions = ('grammarparser.lexer.t_STRING', 'grammarparser.lexer.t_FUNCTION', 'grammarparser.lexer.t_VARIABLE', 'ply.lex.Lexer.token',
                 're (backtracking of the master regex, mirrored by the symbolic matcher)')
    bounds = '%d templates with a symbolic run of 32 (quick) / 48 (thorough) characters (escape pairs: 64 / 96) from the template\'s class (letters and ' \
             'spaces, digits, operator characters, backslash-letter and backslash-quote pairs, dotted identifiers, error- and cell-shaped runs; operator and dotted runs periodic with a symbolic period of 3 / 4 characters); termination = decision / iteration budget of the symbolic matcher, ' \
             'confirmed by replay under a wall-clock limit (the real regex engine runs in C)' % len(LONG_TEMPLATES)
    max_decisions = 3000
    max_ticks = 5000
    replay_timeout_s = 20      # wall-clock limit of one concrete replay (the unchanged tree needs milliseconds)
    case_timeout_s = {'quick': 60, 'thorough': 200}

    def cases(self, tier):
        return [{'t': i, 'n': 32 if tier == 'quick' else 48} for i in range(len(LONG_TEMPLATES))]

    def build(self, e, p):
        kind = LONG_TEMPLATES[p['t']][2]
        alpha = {'X': [(65, 90), (97, 122), (32, 32)], 'L': [(65, 90), (97, 122)], 'D': [(48, 57)], 'O': [(42, 43), (45, 45), (47, 47)],
                 'P': [(65, 90), (97, 122), (92, 92)], 'Q': [(34, 34), (92, 92)], 'I': [(65, 90), (97, 122), (46, 46), (95, 95)],
                 'E': [(65, 90), (48, 57), (95, 95)], 'C': [(65, 90), (97, 122)]}[kind]
        # escape pairs: twice as long, so that 2^(pairs) derivations are far beyond any time limit if the pattern is ambiguous
        run = e.fresh_str('r', p['n'] * (2 if kind in 'PQ' else 1), alphabet=alpha)
        if kind in 'PQ':
            # escape pairs: a backslash at every even position (and for P a letter, for Q the quote after it)
            for k, c in enumerate(run.cps):
                e.add(c == 92 if k % 2 == 0 else c != 92)
        if kind in 'OI':
            # every character of these classes lexes differently, so a free run has 3^n .. 4^n path classes: the run is
            # periodic instead (period 3 / 4, the period itself symbolic)
            per = 3 if kind == 'O' else 4
            for k, c in enumerate(run.cps):
                if k >= per:
                    e.add(c == run.cps[k % per])
        return {'run': run}

    def run(self, env, inp, p):
        _, pre, _, post_ = LONG_TEMPLATES[p['t']]
        return env.Parser().parse(pre + inp['run'] + post_)

    def post(self, env, inp, out, p):
        return well_formed(env, out)


def lexer_patterns(env):
    """the regular expressions ply compiled for the real lexer (regenerated from the current source on every run)"""
    P = env.Parser()
    lx = P.parser.lex
    pats = []
    for state, lst in sorted(lx.lexstateretext.items()):
        pats.extend(lst)
    return P, pats


@register
class RegexAmbiguity(Harness):
    name = 'C01.regexes'
    prop = 'C01'
    termination = True
    doc = 'no unbounded repetition in the lexer\'s regular expressions can match one and the same text in two different ways: ' \
          'an ambiguous repetition makes the backtracking engine try 2^k derivations on k copies of that text followed by a ' \
          'character that makes the token fail, so parse would not return in bounded time'
    functions = ('grammarparser.lexer (every t_* pattern as compiled by ply into the master expressions)', 're._parser (parse trees of those patterns)',
                 'Parser.parse (replay of the pumped input)')
    bounds = 'every repetition without an upper bound and with a compound body in the lexer\'s master expressions; texts w of ' \
             '1..4 (quick) / 1..6 (thorough) arbitrary code points, a prefix of 0..2 arbitrary code points that leads up to the ' \
             'repetition; decided: the number of derivations of w in body* is at most one.  A witness is confirmed by timing ' \
             'the real parse on prefix + w * k + a failing character'
    outside = ('ambiguities that need a text longer than the bound', 'polynomial (non-exponential) backtracking of adjacent repetitions',
               'the inline patterns of TEXT / TRIM / ARABIC, which are applied to values, not to the formula')
    max_decisions = 4000
    replay_timeout_s = 30
    case_timeout_s = {'quick': 250, 'thorough': 2500}

    def cases(self, tier):
        ns = (1, 2, 3, 4) if tier == 'quick' else (1, 2, 3, 4, 5, 6)
        return [{'n': n, 'm': m} for n in ns for m in (0, 1, 2)]

    def build(self, e, p):
        return {'w': e.fresh_str('w', p['n']), 'x': e.fresh_str('x', p['m']) if p['m'] else '', 'node': None}

    def run(self, env, inp, p):
        from .. import symre
        import re._parser as sre_parse
        P, pats = lexer_patterns(env)
        reps = []
        for pat in pats:
            tree = sre_parse.parse(pat, 64)       # ply compiles with re.VERBOSE
            reps += [r for r in symre.unbounded_repeats(tree) if not symre.single_char(r[1])]
        if not reps:
            return {'ways': 0, 'slow': False, 'reps': 0}
        if env.symbolic:
            inp['node'] = E.cur().choose(len(reps))
        before, body = reps[inp['node'] % len(reps)]
        if not symre.full_match_nodes(before, inp['x']):
            return {'ways': 0, 'slow': False, 'reps': len(reps)}
        ways = symre.derivations(body, inp['w'])
        slow = ways >= 2
        if slow and not env.symbolic:
            # confirmation on the real code: 2^k derivations to refuse
            slow = False
            for k in (10, 14, 18, 22, 26, 30):
                for suffix in ('', '\x01', '\n'):
                    t0 = time.time()
                    P.parse(inp['x'] + inp['w'] * k + suffix)
                    if time.time() - t0 > 3.0:
                        slow = True
                        break
                if slow:
                    break
        return {'ways': ways, 'slow': slow, 'reps': len(reps)}

    def post(self, env, inp, out, p):
        if isinstance(out, Raised):
            return False
        return not out['slow']
