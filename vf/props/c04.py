"""C04 - precedence, associativity and parentheses determine expression structure."""
import time
from fractions import Fraction
import z3
from ..harness import Harness, register, Raised
from ..spec import And, Or, Not, tb
from .. import lr
from .common import ok_result, is_record

LEVEL = dict(lr.SPEC_LEVEL)


class Ref(object):
    """Reference reading of a token sequence (Python shunting-yard with the statement's precedence) and evaluation of
    the resulting tree with the spreadsheet's value rules on integer operands."""

    @staticmethod
    def to_tree(tokens, operands):
        out, ops = [], []
        expect = True
        k = 0

        def reduce_top():
            op = ops.pop()
            if op == 'NEG':
                a = out.pop()
                out.append(('neg', a))
            else:
                b = out.pop()
                a = out.pop()
                out.append((op, a, b))
        for t in tokens:
            if t == 'NUMBER':
                if not expect:
                    return None
                out.append(('num', operands[k % len(operands)]))
                k += 1
                expect = False
            elif t == 'LPAREN':
                if not expect:
                    return None
                ops.append('(')
            elif t == 'RPAREN':
                if expect:
                    return None
                while ops and ops[-1] != '(':
                    reduce_top()
                if not ops:
                    return None
                ops.pop()
            elif t == 'MINUS' and expect:
                ops.append('NEG')
            else:
                if expect:
                    return None
                while ops and ops[-1] != '(' and (4 if ops[-1] == 'NEG' else LEVEL[ops[-1]]) >= LEVEL[t]:
                    reduce_top()
                ops.append(t)
                expect = True
        if expect:
            return None
        while ops:
            if ops[-1] == '(':
                return None
            reduce_top()
        return out[0] if len(out) == 1 else None

    @staticmethod
    def ev(tree):
        """value of the tree: ('err', code) | python value"""
        k = tree[0]
        if k == 'num':
            return tree[1]
        if k == 'neg':
            a = Ref.ev(tree[1])
            if isinstance(a, tuple):
                return a
            if isinstance(a, (str, bool)):
                return ('err', '?')
            return -a
        a, b = Ref.ev(tree[1]), Ref.ev(tree[2])
        if isinstance(a, tuple):
            return a
        if isinstance(b, tuple):
            return b
        if k == 'AMP':
            return Ref.txt(a) + Ref.txt(b)
        if k in lr.CMP:
            return Ref.cmp(k, a, b)
        if isinstance(a, (str, bool)) or isinstance(b, (str, bool)):
            return ('err', '?')       # arithmetic on text / logicals: outside the domain of this check
        if k == 'PLUS':
            return a + b
        if k == 'MINUS':
            return a - b
        if k == 'MULT':
            return a * b
        if b == 0:
            return ('err', '#DIV/0!')
        return Fraction(a) / Fraction(b)

    @staticmethod
    def txt(v):
        if isinstance(v, str):
            return v
        if isinstance(v, bool):
            return 'True' if v else 'False'
        if isinstance(v, Fraction):
            return str(v.numerator) if v.denominator == 1 else repr(v.numerator / v.denominator)
        return str(v)

    @staticmethod
    def rank(v):
        return 2 if isinstance(v, bool) else 1 if isinstance(v, str) else 0

    @staticmethod
    def cmp(k, a, b):
        ra, rb = Ref.rank(a), Ref.rank(b)
        if ra != rb:
            lt, eq = ra < rb, False
        else:
            lt, eq = a < b, a == b
        gt = not lt and not eq
        return {'LESS': lt, 'GREATER': gt, 'EQUAL': eq, 'NOTEQUAL': not eq, 'LESSEQ': lt or eq, 'GREATEREQ': gt or eq}[k]


def same_value(result, ref):
    if isinstance(ref, bool) or isinstance(result, bool):
        return isinstance(ref, bool) and isinstance(result, bool) and ref == result
    if isinstance(ref, str) or isinstance(result, str):
        return isinstance(ref, str) and isinstance(result, str) and ref == result
    try:
        r = Fraction(result) if not isinstance(result, float) else None
        if r is not None:
            return r == ref
        return abs(result - float(ref)) <= 1e-9 * max(1.0, abs(float(ref)))
    except (TypeError, ValueError):
        return False


@register
class LRBmc(Harness):
    name = 'C04.lr'
    prop = 'C04'
    doc = 'bounded model check of the LALR tables ply builds from the real grammar and precedence declaration against a ' \
          'shunting-yard reference with the precedence of the statement: every token sequence of length N that the reference ' \
          'reads inside the property\'s domain is accepted by the LR automaton with the same reverse-Polish output'
    functions = ('grammarparser.parser.Parser.precedence', 'grammarparser.parser.FormulaParser (all productions, via ply.yacc tables)',
                 'grammarparser.parser_FormulaParser_parsetab')
    bounds = 'token sequences of length 1..6 (quick) / 1..8 (thorough) over {operand, + - * / &, six comparisons, ( )}, prefix minus ' \
             'included; domain: at most one comparison per parenthesis-free region, & not mixed with + - * / in one region'
    outside = ('sequences longer than the bound', 'operand kinds other than an integer literal (covered by C04.trees)')
    case_timeout_s = {'quick': 280, 'thorough': 3000}

    def cases(self, tier):
        return [{'N': n} for n in range(1, 7 if tier == 'quick' else 9)]

    # replay side: one concrete token sequence ------------------------------------------------
    def run(self, env, inp, p):
        return self.parse_with(env, lr.render(inp['tokens']), {})

    def post(self, env, inp, out, p):
        tree = Ref.to_tree(inp['tokens'], lr.OPERANDS)
        if tree is None:
            return True
        ref = Ref.ev(tree)
        if isinstance(ref, tuple):
            if ref[1] == '?':
                return True
            return is_record(out) and out['error'] == ref[1]
        return ok_result(out) and same_value(out['result'], ref)

    # symbolic side ------------------------------------------------------------------------------
    def decide(self, env, p, tier, replay, deadline):
        t0 = time.time()
        Y = env.Parser().parser.yacc
        m = lr.LRModel(Y, p['N'])
        res = dict(paths=1, status={'ok': 1}, violations=[], known=[], undecided=[], samples=[], replays=0, spurious=0, reach=0,
                   solver_calls=0, solver_time=0.0, nonlinear=0)
        tmo = int(max(10, deadline - time.time()) * 1000)

        def ask(*extra):
            s = m.solver()
            s.set('timeout', max(1000, int((deadline - time.time()) * 1000)))
            s.add(*extra)
            t = time.time()
            r = s.check()
            res['solver_calls'] += 1
            res['solver_time'] += time.time() - t
            return r, s
        r, _ = ask(m.lr_unfinished)
        if r != z3.unsat:
            res['undecided'].append({'why': 'unwinding assertion (LR driver still running after its step bound): %s' % r})
        r, _ = ask(m.ref_unfinished)
        if r != z3.unsat:
            res['undecided'].append({'why': 'unwinding assertion (reference still running): %s' % r})
        r, s = ask(m.ref_ok, z3.Not(m.outside))
        if r == z3.sat:
            res['reach'] = 1
            res['samples'].append({'tokens': m.tokens_of(s.model()), 'text': lr.render(m.tokens_of(s.model())), 'harness': self.name})
        elif p['N'] % 2 == 0 and p['N'] < 2:
            res['reach'] = 1
        viol = z3.And(m.ref_ok, z3.Not(m.outside), z3.Not(z3.And(m.lr_ok, m.same)))
        no_assoc = z3.And(*[z3.And(t != lr.TID['PLUS'], t != lr.TID['MULT']) for t in m.tok])
        found = False
        for label, extra in (('without + and *', [no_assoc]), ('full alphabet', [])):
            if found:
                break
            s = m.solver()
            s.add(viol, *extra)
            for k in range(30):
                s.set('timeout', max(1000, int((deadline - time.time()) * 1000)))
                t = time.time()
                r = s.check()
                res['solver_calls'] += 1
                res['solver_time'] += time.time() - t
                if r == z3.unsat:
                    break
                if r != z3.sat:
                    res['undecided'].append({'why': 'main query (%s): %s' % (label, r)})
                    break
                toks = m.tokens_of(s.model())
                rr = replay({'tokens': toks})
                res['replays'] += 1
                if rr.get('status') in ('violated', 'raised', 'hang'):
                    res['violations'].append({'inputs': {'d': {'tokens': toks}}, 'replay': dict(rr, formula=lr.render(toks))})
                    found = True
                    break
                res['spurious'] += 1
                s.add(z3.Or(*[tv != s.model().eval(tv, model_completion=True) for tv in m.tok]))
            else:
                res['undecided'].append({'why': 'structural differences found (%s) but 30 witnesses evaluate alike' % label})
        if res['reach'] == 0 and p['N'] not in (2,):
            # even lengths >= 2 have valid sequences too ("-1" has length 2); only report when nothing at all is readable
            r2, _ = ask(m.ref_ok)
            if r2 == z3.sat:
                res['reach'] = 1
        res['lr_tables'] = {'reachable_states': len(m.reach), 'action_entries': m.n_act, 'goto_entries': m.n_goto}
        res['wall'] = round(time.time() - t0, 2)
        res['solver_time'] = round(res['solver_time'], 3)
        return res


# ------------------------------------------------------------------------------------------------
# C04.trees: generating trees -> minimal / full parenthesisation -> same value as an independent evaluation
from .. import engine as E
from .. import models
from ..spec import same_type_eq, Implies
from ..values import SymInt, SymBool, SymStr, SymFloat, mkbool, zint

OPS = ['+', '-', '*', '/', '&', '<', '=']
OPLEVEL = {'+': 2, '-': 2, '*': 3, '/': 3, '&': 2, '<': 1, '=': 1}
LEAF_KINDS = ['var', 'lit', 'cell', 'call', 'dec', 'pct', 'pow']


def gen_trees(nleaves):
    """all binary shapes with nleaves leaves; internal nodes get an operator later"""
    if nleaves == 1:
        return ['L']
    out = []
    for k in range(1, nleaves):
        for a in gen_trees(k):
            for b in gen_trees(nleaves - k):
                out.append((a, b))
    return out


def assign_ops(shape, ops):
    if shape == 'L':
        yield 'L'
        return
    a, b = shape
    for oa in assign_ops(a, ops):
        for ob in assign_ops(b, ops):
            for op in ops:
                yield (op, oa, ob)


def kindof(t):
    if t == 'L' or t[0] == 'leaf':
        return 'leaf'
    if t[0] == 'neg':
        return 'neg'
    return 'cmp' if t[0] in '<=' else 'amp' if t[0] == '&' else 'arith'


def needs_parens(parent_op, child, right):
    if kindof(child) in ('leaf', 'neg'):
        return False
    pl, cl = OPLEVEL[parent_op], OPLEVEL[child[0]]
    return cl < pl or (cl == pl and right)


def in_domain(t):
    """minimal rendering: one comparison per parenthesis-free region, & not mixed with arithmetic in a region"""
    if kindof(t) == 'leaf':
        return True
    if t[0] == 'neg':
        return in_domain(t[1])
    ok = in_domain(t[1]) and in_domain(t[2])
    for child, right in ((t[1], False), (t[2], True)):
        if kindof(child) in ('leaf',):
            continue
        if kindof(child) == 'neg':
            if kindof(t) == 'amp':
                ok = False        # -a&b : how unary minus and & mix is not fixed by the statement
            continue
        if needs_parens(t[0], child, right):
            continue
        ks = {kindof(t), kindof(child)}
        if ks == {'amp', 'arith'} or ks == {'cmp'}:
            ok = False
        # transitively: an unparenthesised grandchild shares the region too
        if kindof(child) != kindof(t) and not _region_ok(child, kindof(t)):
            ok = False
    return ok


def _region_ok(t, outer_kind):
    for child, right in ((t[1], False), (t[2], True)) if kindof(t) not in ('leaf', 'neg') else ():
        if kindof(child) in ('leaf', 'neg') or needs_parens(t[0], child, right):
            continue
        ks = {outer_kind, kindof(child)}
        if ks == {'amp', 'arith'} or (outer_kind == 'cmp' and kindof(child) == 'cmp'):
            return False
        if not _region_ok(child, outer_kind):
            return False
    return True


def typed_ok(t):
    """arithmetic and unary minus only over numeric subtrees (text / logical intermediates belong to C06 / C07)"""
    k = kindof(t)
    if k == 'leaf':
        return True
    if k == 'neg':
        return kindof(t[1]) in ('leaf', 'neg', 'arith') and typed_ok(t[1])
    ok = typed_ok(t[1]) and typed_ok(t[2])
    if k == 'amp':
        # & renders its operands as text: fractional values would go through repr(float), which is not modelled
        ok = ok and not any(has_div(c) for c in (t[1], t[2]))
    if k == 'arith':
        ok = ok and all(kindof(c) in ('leaf', 'neg', 'arith') for c in (t[1], t[2]))
    return ok


def has_div(t):
    if kindof(t) == 'leaf':
        return False
    if t[0] == 'neg':
        return has_div(t[1])
    return t[0] == '/' or has_div(t[1]) or has_div(t[2])


class Leaves(object):
    """leaf texts and values, by kind, in order of appearance"""
    def __init__(self, env, inp, kinds):
        self.env, self.inp, self.kinds = env, inp, kinds
        self.k = 0
        self.vars = {}
        self.cells = {}

    def next(self, int_only=False):
        i = self.k
        self.k += 1
        kind = self.kinds[i % len(self.kinds)]
        if int_only and kind in ('dec', 'pct'):
            kind = 'lit'
        v = self.inp['xs'][i]
        name = 'v' + 'abcdefgh'[i]
        if kind == 'var':
            self.vars[name] = v
            return name, v
        if kind == 'cell':
            lab = 'abcdefgh'[i].upper() + '1'
            self.cells[lab] = v
            return lab, v
        if kind == 'call':
            self.vars[name] = v
            return 'SUM(%s,0)' % name, v
        c = [3, 5, 7, 11, 13, 17, 19, 23][i]
        if kind == 'lit':
            return str(c), c
        if kind == 'dec':
            return '%d.5' % c, c + 0.5
        if kind == 'pct':
            return '%d%%' % (c * 100), c * 100 * 0.01 if False else (c * 100) / 100
        return '%d^2' % c, c * c


def render_tree(t, leaves, full, under_amp=False):
    if t == 'L':
        return leaves.next(int_only=under_amp)
    if t[0] == 'neg':
        s, v = render_tree(t[1], leaves, full, under_amp)
        if kindof(t[1]) not in ('leaf',) or full:
            s = '(%s)' % s
        return '-' + s, ('neg', v)
    ua = under_amp or t[0] == '&'
    ls, lv = render_tree(t[1], leaves, full, ua)
    rs, rv = render_tree(t[2], leaves, full, ua)
    if full and kindof(t[1]) != 'leaf' or (not full and needs_parens(t[0], t[1], False)):
        ls = '(%s)' % ls
    if full and kindof(t[2]) != 'leaf' or (not full and needs_parens(t[0], t[2], True)):
        rs = '(%s)' % rs
    return ls + t[0] + rs, (t[0], lv, rv)


class EvalError(Exception):
    pass


def ev_ref(env, v):
    """independent evaluation on (possibly symbolic) integer leaves"""
    if not isinstance(v, tuple):
        return v
    if v[0] == 'neg':
        a = ev_ref(env, v[1])
        if isinstance(a, (str, SymStr, bool, SymBool)):
            raise EvalError('type')
        return -a
    op, a, b = v[0], ev_ref(env, v[1]), ev_ref(env, v[2])
    istext = lambda x: isinstance(x, (str, SymStr))
    islog = lambda x: isinstance(x, (bool, SymBool))
    if op == '&':
        if islog(a) or islog(b) or isinstance(a, (float, SymFloat)) or isinstance(b, (float, SymFloat)):
            raise EvalError('type')
        ta = a if istext(a) else (models.m_str(a) if env.symbolic else str(a))
        tb_ = b if istext(b) else (models.m_str(b) if env.symbolic else str(b))
        return ta + tb_
    if op in '<=':
        ra = 2 if islog(a) else 1 if istext(a) else 0
        rb = 2 if islog(b) else 1 if istext(b) else 0
        if ra != rb:
            return (ra < rb) if op == '<' else False
        if ra == 2:
            raise EvalError('logical compare')
        return (a < b) if op == '<' else (a == b)
    if istext(a) or istext(b) or islog(a) or islog(b):
        raise EvalError('type')
    if op == '+':
        return a + b
    if op == '-':
        return a - b
    if op == '*':
        return a * b
    z = (b == 0)
    if z is True or (not isinstance(z, bool) and bool(z)):
        raise EvalError('div0')
    return a / b


@register
class Trees(Harness):
    name = 'C04.trees'
    prop = 'C04'
    doc = 'for every generating tree, the minimally and the fully parenthesised renderings evaluate identically and equal an ' \
          'independent evaluation of the tree; leaves are variables, cell references, calls and literals of every numeric form'
    functions = ('grammarparser.parser.p_expression_arithmetic_operator', 'grammarparser.parser.p_expression_logical_operator',
                 'grammarparser.parser.p_expression_uminus', 'grammarparser.parser.p_expression_paren',
                 'grammarparser.parser.p_expression_number', 'grammarparser.parser.p_cell', 'grammarparser.parser.p_expression_varseq',
                 'grammarparser.parser.p_expression_wargs', 'operators.evaluate_arithmetic', 'operators.evaluate_logic')
    bounds = 'trees with 2..3 leaves (quick) / 2..4 (thorough) over + - * / & < =, optional unary minus on the root or on a leaf; ' \
             'variable / cell / call leaves hold symbolic integers |x| <= 99; domain as in the statement'
    outside = ('trees larger than the bound', 'arithmetic on text or logical intermediate values (covered by C06/C07)')

    def cases(self, tier):
        out = []
        maxl = 3 if tier == 'quick' else 4
        idx = 0
        for n in range(2, maxl + 1):
            for shape in gen_trees(n):
                for t in assign_ops(shape, OPS):
                    variants = [t, ('neg', t)]
                    # unary minus on the first leaf
                    def neg_first(x):
                        if x == 'L':
                            return ('neg', 'L')
                        return (x[0], neg_first(x[1]), x[2])
                    variants.append(neg_first(t))
                    for v in variants:
                        if not in_domain(v) or not typed_ok(v):
                            continue
                        idx += 1
                        out.append({'tree': v, 'rot': idx % len(LEAF_KINDS)})
        return out

    def build(self, e, p):
        return {'xs': [e.fresh_int('x%d' % i, -99, 99) for i in range(4)]}

    def _tree(self, t):
        return tuple(self._tree(x) if isinstance(x, list) else x for x in t) if isinstance(t, (list, tuple)) else t

    def run(self, env, inp, p):
        t = self._tree(p['tree'])
        kinds = LEAF_KINDS[p['rot']:] + LEAF_KINDS[:p['rot']]
        outs = []
        for full in (False, True):
            lv = Leaves(env, inp, kinds)
            text, val = render_tree(t, lv, full)
            P = env.Parser()
            for k, v in lv.vars.items():
                P.set_variable(k, v)
            cells = lv.cells
            P.on('callCellValue', lambda cell, setter, cells=cells: setter(cells.get(cell.label)))
            outs.append(P.parse(text))
        inp['_val'] = None
        return {'outs': outs, 'val': val, 'text': text}

    def post(self, env, inp, out, p):
        if isinstance(out, Raised):
            return False
        o_min, o_full = out['outs']
        if not (is_record(o_min) and is_record(o_full)):
            return False
        try:
            ref = ev_ref(env, out['val'])
        except EvalError as ex:
            if str(ex) == 'div0':
                return And(o_min['error'] == '#DIV/0!', o_full['error'] == '#DIV/0!')
            return True      # type combinations outside this check's domain
        except ZeroDivisionError:
            return And(o_min['error'] == '#DIV/0!', o_full['error'] == '#DIV/0!')
        return And(o_min['error'] is None, o_full['error'] is None, same_type_eq(o_min['result'], ref), same_type_eq(o_full['result'], ref))
