"""C03 - parser instances are isolated; evaluation is re-entrant.

Thread interleavings are OUTSIDE the claim (stated in MANIFEST / DESIGN): nothing available here models CPython thread
switches inside ply's lexer loop.  Decided: binding isolation and nested (re-entrant) evaluation."""
import z3
from ..harness import Harness, register, Raised
from ..spec import And, Or, Not, Implies, tb, same_type_eq
from ..values import SymInt, SymBool, SymStr, zint, mkint, mkbool
from .. import engine as E
from .common import ok_result, err_is, is_record, isint, LETTERS
from .c09 import IDENT, ident_shape


def same_outcome(a, b):
    if not (is_record(a) and is_record(b)):
        return False
    return And(a['error'] == b['error'], same_type_eq(a['result'], b['result']))


@register
class Bindings(Harness):
    name = 'C03.bindings'
    prop = 'C03'
    needs_ply = True
    max_decisions = 20000
    doc = 'variables, custom functions and listeners registered on one parser are invisible to every other parser: a formula ' \
          'using the (symbolic) name evaluates on another parser exactly as on a fresh one'
    functions = ('Parser.__init__', 'Parser.set_variable', 'Parser.set_function', 'tinyemitter.Emitter.on', 'Parser.call_variable',
                 'Parser.call_function')
    bounds = 'names of 1..3 characters (symbolic, lexed symbolically): identifier-shaped for variables, letters for functions; ' \
             'listeners on all four events'

    def cases(self, tier):
        return [{'kind': k, 'len': n} for k in ('variable', 'function') for n in (1, 2, 3)] + [{'kind': 'listeners', 'len': 0}]

    def build(self, e, p):
        if p['kind'] == 'variable':
            name = e.fresh_str('n', p['len'], alphabet=IDENT)
            e.add(ident_shape(name.cps))
        elif p['kind'] == 'function':
            name = e.fresh_str('n', p['len'], alphabet=LETTERS)
        else:
            name = 'va'
        return {'name': name, 'v': e.fresh_int('v')}

    def run(self, env, inp, p):
        A, B, C = env.Parser(), env.Parser(), env.Parser()
        name = inp['name']
        f = name if p['kind'] == 'variable' else (name + '(1)' if p['kind'] == 'function' else 'SUM(A1,B1:B2,va)')
        # the reference outcome: a parser that evaluates before anything is registered anywhere in the process
        fresh = C.parse(f)
        if p['kind'] == 'variable':
            A.set_variable(name, inp['v'])
        elif p['kind'] == 'function':
            A.set_function(name, lambda *a: inp['v'])
        else:
            for ev in ('callVariable', 'callCellValue', 'callRangeValue', 'callFunction'):
                A.on(ev, lambda *a: a[-1](inp['v']))
        onA = A.parse(f)
        return [B.parse(f), fresh, onA]

    def post(self, env, inp, out, p):
        if isinstance(out, Raised):
            return False
        b, c, a = out
        return same_outcome(b, c)


CALLBACKS = ['func', 'on_function', 'on_variable', 'on_cell', 'on_range']
OUTERS = {   # outer skeleton per callback kind: the interposed call is the first / a middle / the last operand
    'func': ['G(va)+vb*2', 'vb*2+G(va)-va', 'va-G(vb)', 'SUM(va,G(vb),{1,2})'],
    'on_function': ['SUM(va,1)+vb*2', 'vb*2+SUM(va,1)-va', 'va-SUM(vb,1)'],
    'on_variable': ['va+vb*2', 'vb*2+va-3', '3-va'],
    'on_cell': ['A1+vb*2', 'vb*2+A1-va', 'va-A1'],
    'on_range': ['SUM(A1:B2)+vb*2', 'vb*2+SUM(A1:B2)-va', 'va-SUM(A1:B2)'],
}
INNERS = ['vc+1', 'SUM(vc,2)*3', 'vc&"x"', 'NOSUCHNAME+1', '1/0', 'IF(vc>0,"p","n")']


@register
class Nesting(Harness):
    name = 'C03.nesting'
    prop = 'C03'
    doc = 'an evaluation interposed in another one (by a custom function or a listener, on a pre-built other parser or on the ' \
          'same parser, to depth 2) does not disturb it: outer and inner outcomes equal their solo outcomes'
    functions = ('Parser.parse', 'grammarparser.parser.Parser.parse', 'ply.yacc.LRParser.parse', 'ply.lex (module-global lexer)',
                 'Parser.call_function', 'tinyemitter.Emitter.emit')
    bounds = '5 callback kinds x 3-4 outer skeletons (interposed call first / middle / last) x %d inner formulas x {other ' \
             'pre-built parser, same parser} x depth 1..2; variable values symbolic integers' % len(INNERS)
    outside = ('thread interleavings',)

    def cases(self, tier):
        out = []
        for cb in CALLBACKS:
            for o in range(len(OUTERS[cb])):
                for i in range(len(INNERS)):
                    for where in ('other', 'same'):
                        for depth in (1, 2):
                            if False and tier == 'quick' and depth == 2 and i not in (0, 3):
                                continue
                            out.append({'cb': cb, 'o': o, 'i': i, 'where': where, 'depth': depth})
        return out

    def build(self, e, p):
        return {'a': e.fresh_int('a', -100, 100), 'b': e.fresh_int('b', -100, 100), 'c': e.fresh_int('c', -100, 100)}

    def _mk(self, env, inp):
        P = env.Parser()
        for k, v in (('va', inp['a']), ('vb', inp['b']), ('vc', inp['c'])):
            P.set_variable(k, v)
        return P

    def run(self, env, inp, p):
        outer_f = OUTERS[p['cb']][p['o']]
        inner_f = INNERS[p['i']]
        # solo outcomes on fresh parsers: no nested evaluation at all, the callback returns a fixed symbolic value
        solo_inner = self._mk(env, inp).parse(inner_f)
        R = inp['c']

        def wire(P, nested):
            """install the callback of kind cb on P; nested() performs the interposed evaluation(s) (or nothing)"""
            cb = p['cb']
            if cb == 'func':
                P.set_function('G', lambda *a: (nested(), R)[1])
            else:
                ev = {'on_function': 'callFunction', 'on_variable': 'callVariable', 'on_cell': 'callCellValue', 'on_range': 'callRangeValue'}[cb]
                busy = [False]

                def listener(*a):
                    if busy[0]:
                        return      # the interposed evaluation raises the same event kind: do not recurse without bound
                    busy[0] = True
                    try:
                        nested()
                    finally:
                        busy[0] = False
                    if cb in ('on_cell', 'on_range'):
                        a[-1](R if cb == 'on_cell' else [R, 1])
                P.on(ev, listener)
        solo_outer_P = self._mk(env, inp)
        wire(solo_outer_P, lambda: None)
        solo_outer = solo_outer_P.parse(outer_f)
        # nested run: parsers are built BEFORE the outer evaluation starts
        outer_P = self._mk(env, inp)
        other_P = self._mk(env, inp)
        third_P = self._mk(env, inp)
        inner_outs = []

        def nested():
            target = outer_P if p['where'] == 'same' else other_P
            if p['depth'] == 2:
                # the interposed evaluation itself triggers a further evaluation on a third parser
                target.set_function('H', lambda *a: (inner_outs.append(third_P.parse(inner_f)), 0)[1])
                inner_outs.append(target.parse('IF(H()=0,' + inner_f + ',0)'))
            else:
                inner_outs.append(target.parse(inner_f))
        wire(outer_P, nested)
        nested_outer = outer_P.parse(outer_f)
        return {'solo_outer': solo_outer, 'nested_outer': nested_outer, 'solo_inner': solo_inner, 'inner_outs': inner_outs}

    def post(self, env, inp, out, p):
        if isinstance(out, Raised):
            return False
        cl = [same_outcome(out['nested_outer'], out['solo_outer'])]
        if not out['inner_outs']:
            return False
        for o in out['inner_outs']:
            cl.append(same_outcome(o, out['solo_inner']))
        return And(*cl)
