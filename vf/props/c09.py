"""C09 - names resolve to what was registered; unknown names are #NAME?."""
import os
import re
import z3
from ..harness import Harness, register, Raised
from ..spec import And, Or, Not, Implies, tb, same_type_eq
from ..values import SymInt, SymBool, SymStr, zint, mkint, mkbool, cps_of, zcp
from .. import engine as E
from .common import ok_result, err_is, is_record, isint, isstr, LETTERS

IDENT = [(48, 57), (65, 90), (95, 95), (97, 122)]
FNAME = [(46, 46), (48, 57), (65, 90), (95, 95), (97, 122)]     # what t_FUNCTION accepts after the first letter


def z_letter(c):
    return z3.Or(z3.And(c >= 65, c <= 90), z3.And(c >= 97, c <= 122))


def z_digit(c):
    return z3.And(c >= 48, c <= 57)


def ident_shape(cps):
    """identifier-shaped and without a cell-shaped prefix (statement: 'identifier-shaped names, not shaped like cell
    references'): a letter first and the first non-letter character, if any, is an underscore; or letters/underscores only"""
    cs = [zcp(c) for c in cps]
    alt2 = z3.And(*[z3.Or(z_letter(c), c == 95) for c in cs])
    first_letter = z_letter(cs[0])
    conds = []
    for i in range(1, len(cs)):
        # if cs[0..i-1] are all letters then cs[i] is not a digit
        conds.append(z3.Implies(z3.And(*[z_letter(c) for c in cs[:i]]), z3.Not(z_digit(cs[i]))))
    alt1 = z3.And(first_letter, *conds)
    return z3.Or(alt2, alt1)


class _Sym(Harness):
    prop = 'C09'
    needs_ply = True
    max_decisions = 20000
    case_timeout_s = {'quick': 280, 'thorough': 3000}


@register
class Variables(_Sym):
    name = 'C09.variables'
    doc = 'after set_variable(name, v) the formula consisting of the name evaluates to exactly v, for every identifier-shaped name'
    functions = ('Parser.set_variable', 'Parser.call_variable', 'grammarparser.lexer.t_VARIABLE', 'grammarparser.lexer.t_RELATIVE_CELL',
                 'grammarparser.parser.p_expression_varseq', 'grammarparser.parser.p_variable', 'ply.lex.Lexer.token')
    bounds = 'names of 1..5 (quick) / 1..8 (thorough) characters over letters, digits and underscore that are identifier-shaped ' \
             'without a cell-shaped prefix (the name itself is symbolic and lexed symbolically); values: any integer, logical, ' \
             'text of 2 arbitrary characters, blank, float, list of two integers'
    outside = ('names with a cell-shaped prefix such as ab1c', 'dotted variable sequences a.b')

    def cases(self, tier):
        ls = (1, 2, 3, 4, 5) if tier == 'quick' else (1, 2, 3, 4, 5, 6, 7, 8)
        return [{'len': n, 'tag': t} for n in ls for t in ('int', 'bool', 'text', 'blank', 'float', 'list')]

    def build(self, e, p):
        name = e.fresh_str('n', p['len'], alphabet=IDENT)
        e.add(ident_shape(name.cps))
        t = p['tag']
        v = {'int': lambda: e.fresh_int('v'), 'bool': lambda: e.fresh_bool('v'), 'text': lambda: e.fresh_str('v', 2),
             'blank': lambda: None, 'float': lambda: e.fresh_real('v'), 'list': lambda: [e.fresh_int('v0'), e.fresh_int('v1')]}[t]()
        return {'name': name, 'v': v}

    def run(self, env, inp, p):
        P = env.Parser()
        P.set_variable(inp['name'], inp['v'])
        return P.parse(inp['name'])

    def post(self, env, inp, out, p):
        if not ok_result(out):
            return False
        return same_type_eq(out['result'], inp['v'])


@register
class CustomFunctions(_Sym):
    name = 'C09.functions'
    doc = 'a registered custom function is called once per call site with the evaluated arguments in order and its return ' \
          'value is the value of the call, also when a built-in has the same name'
    functions = ('Parser.set_function', 'Parser.call_function', 'grammarparser.lexer.t_FUNCTION', 'grammarparser.parser.p_expression_wargs',
                 'grammarparser.parser.p_expression_function', 'formulas.Dispatcher.get_for')
    bounds = 'function names of 1..4 (quick) / 1..6 (thorough) characters: a letter followed by letters, digits, underscores and ' \
             'dots (symbolic: ranges over the built-in names of that length and all others), 0, 2 or 3 arguments (symbolic integers in -9..9, the return value any integer); registered on ' \
             'a fresh parser, after the name was already called once, and over an earlier registration'

    def cases(self, tier):
        ls = (1, 2, 3, 4) if tier == 'quick' else (1, 2, 3, 4, 5, 6)
        return [{'len': n, 'args': a, 'hist': h} for n in ls for a in (0, 2, 3) for h in (None, 'called_before', 'reregistered')]

    def build(self, e, p):
        name = e.fresh_str('n', p['len'], alphabet=FNAME)
        e.add(z_letter(zcp(name.cps[0])))
        # the arguments stay small: with the history 'called_before' they first reach whichever built-in has that name
        return {'name': name, 'a': e.fresh_int('a', -9, 9), 'b': e.fresh_int('b', -9, 9), 'r': e.fresh_int('r')}

    def run(self, env, inp, p):
        P = env.Parser()
        calls = []

        def rec(*args):
            calls.append(args)
            return inp['r']
        P.set_variable('va', inp['a'])
        P.set_variable('vb', inp['b'])
        text = inp['name'] + {0: '()', 2: '(va,vb)', 3: '(va,vb,va)'}[p['args']]
        if p.get('hist') == 'called_before':
            P.parse(text)                       # the name is used once before it is registered
        elif p.get('hist') == 'reregistered':
            P.set_function(inp['name'], lambda *a: 0)
            P.parse(text)
        P.set_function(inp['name'], rec)
        out = P.parse(text)
        return {'out': out, 'calls': calls}

    def post(self, env, inp, out, p):
        if isinstance(out, Raised):
            return False
        o, calls = out['out'], out['calls']
        if len(calls) != 1:
            return False
        want = {0: (), 2: (inp['a'], inp['b']), 3: (inp['a'], inp['b'], inp['a'])}[p['args']]
        if len(calls[0]) != len(want):
            return False
        return And(ok_result(o), isint(o['result']) and o['result'] == inp['r'], *[isint(x) and x == w for x, w in zip(calls[0], want)])


CONTEXTS = ['%s(1)', '%s(1)+1', 'SUM(%s(1))', 'IF(TRUE,%s())', '1+%s()*2', '%s(1)&"a"']


@register
class Unknown(_Sym):
    name = 'C09.unknown'
    doc = 'a formula that calls an unregistered function or references an unknown variable evaluates to #NAME? - never to a ' \
          'value or a silent blank'
    functions = ('Parser.call_function', 'Parser.call_variable', 'formulas.Dispatcher.get_for', 'ply.yacc (error recovery on SyntaxError)')
    bounds = 'unknown function names of 1..4 (quick) / 1..6 (thorough) characters (a letter, then letters, digits, underscores, dots), symbolic and different from every registered name, ' \
             'in %d contexts; unknown variable names as in C09.variables' % len(CONTEXTS)

    def cases(self, tier):
        ls = (1, 2, 3, 4) if tier == 'quick' else (1, 2, 3, 4, 5, 6)
        vs = (1, 2, 3, 4, 5) if tier == 'quick' else (1, 2, 3, 4, 5, 6, 7, 8)
        return [{'len': n, 'ctx': c} for n in ls for c in range(len(CONTEXTS))] + [{'len': n, 'ctx': -1} for n in vs]

    def build(self, e, p):
        if p['ctx'] < 0:
            name = e.fresh_str('n', p['len'], alphabet=IDENT)
            e.add(ident_shape(name.cps))
            for k in ('TRUE', 'FALSE', 'NULL'):
                if len(k) == p['len']:
                    e.add(z3.Or(*[c != ord(ch) for c, ch in zip(name.cps, k)]))
            return {'name': name}
        import sys
        name = e.fresh_str('n', p['len'], alphabet=FNAME)
        e.add(z_letter(zcp(name.cps[0])))
        reg = sys.modules['hotxlfp.formulas'].dispatcher._registry_
        for k in reg:
            if len(k) == p['len']:
                e.add(z3.Or(*[c != ord(ch) for c, ch in zip(name.cps, k)]))
        return {'name': name}

    def run(self, env, inp, p):
        P = env.Parser()
        if p['ctx'] < 0:
            return P.parse(inp['name'])
        pre, post_ = CONTEXTS[p['ctx']].split('%s')
        return P.parse(pre + inp['name'] + post_)

    def post(self, env, inp, out, p):
        return err_is(out, '#NAME?')


@register
class Documented(Harness):
    name = 'C09.documented'
    prop = 'C09'
    doc = 'every function name listed in SUPPORTED_FORMULAS.md resolves to a built-in; TRUE, FALSE and NULL are predefined'
    functions = ('formulas.Dispatcher.get_for', 'formulas.supported', 'Parser.__init__')
    bounds = 'the documented list (a finite enumeration by direct lookup - not a solver verdict, flagged as such)'

    def cases(self, tier):
        return [{}]

    def run(self, env, inp, p):
        import hotxlfp as _unused  # noqa
        root = os.path.dirname(os.path.dirname(os.path.abspath(env.hot.__file__)))
        text = open(os.path.join(root, 'SUPPORTED_FORMULAS.md'), encoding='utf-8').read()
        sup = text.split('# Not Yet Supported')[0]
        names = re.findall(r'^\* (\S+)\s*$', sup, re.M)
        fm = env.mod('formulas')
        missing = []
        for n in names:
            try:
                f = fm.get_for(n)
            except Exception:
                f = None
            if f is None:
                missing.append(n)
        P = env.Parser()
        pre = [P.parse('TRUE'), P.parse('FALSE'), P.parse('NULL')]
        return {'n': len(names), 'missing': missing, 'pre': pre}

    def post(self, env, inp, out, p):
        if isinstance(out, Raised):
            return False
        pre = out['pre']
        return (out['n'] >= 100 and not out['missing'] and pre[0] == {'result': True, 'error': None}
                and pre[1] == {'result': False, 'error': None} and pre[2] == {'result': None, 'error': None})
