"""C15 - text functions satisfy the string algebra they document."""
import z3
from ..harness import Harness, register, Raised
from ..spec import And, Or, Not, Implies, Iff, tb
from ..values import SymInt, SymBool, SymStr, zint, mkint, mkbool, zbool, cps_of, zcp, mkstr
from .. import engine as E
from .. import models
from .common import ok_result, err_is, any_error, is_record, isint, isstr

ASCII = [(0, 127)]


def T(x):
    """python truth of a (possibly symbolic) condition -- forks on the symbolic side"""
    return x is True or (x is not False and bool(x))


def text_eq(r, want):
    return isstr(r) and (r == want)


class _Text(Harness):
    prop = 'C15'

    def lens(self, tier):
        return (0, 1, 2, 3, 4, 5, 6) if tier == 'quick' else (0, 1, 2, 3, 4, 5, 6, 7, 8, 9, 10)


@register
class Slicing(_Text):
    name = 'C15.slicing'
    doc = 'LEFT / RIGHT / MID / LEN: exactly the requested leading / trailing / inner characters, whole text when more are ' \
          'requested, empty text for zero, #VALUE! for negative counts; LEFT(s,n)&RIGHT(s,LEN(s)-n)=s; MID(s,1,n)=LEFT(s,n)'
    functions = ('text.LEFT', 'text.RIGHT', 'text.MID', 'text.LEN')
    bounds = 'text of length 0..6 (quick) / 0..10 (thorough) over all code points; counts and start positions: every integer; negative counts also as any real in (-1000, 0)'

    def cases(self, tier):
        return [{'L': L} for L in self.lens(tier)] + [{'L': L, 'negfrac': 1} for L in (0, 2)]

    def build(self, e, p):
        if p.get('negfrac'):
            # "#VALUE! for negative counts": also for a negative count that is not a whole number
            n = e.fresh_real('n', -1000, 0)
            e.add(n.real() < 0)
            return {'s': e.fresh_str('s', p['L']) if p['L'] else '', 'n': n, 'k': e.fresh_int('k', 1, 3)}
        return {'s': e.fresh_str('s', p['L']) if p['L'] else '', 'n': e.fresh_int('n'), 'k': e.fresh_int('k')}

    def run(self, env, inp, p):
        vs = {'vs': inp['s'], 'vn': inp['n'], 'vk': inp['k']}
        if p.get('negfrac'):
            return [self.parse_with(env, f, vs) for f in ('LEFT(vs,vn)', 'RIGHT(vs,vn)', 'MID(vs,vk,vn)')]
        fs = ['LEFT(vs,vn)', 'RIGHT(vs,vn)', 'MID(vs,vk,vn)', 'LEN(vs)', 'MID(vs,1,vn)', 'LEFT(vs,vn)&RIGHT(vs,LEN(vs)-vn)']
        return [self.parse_with(env, f, vs) for f in fs]

    def post(self, env, inp, out, p):
        if isinstance(out, Raised) or not all(is_record(o) for o in out):
            return False
        if p.get('negfrac'):
            return And(*[err_is(o, '#VALUE!') for o in out])
        s, n, k, L = inp['s'], inp['n'], inp['k'], p['L']
        left, right, mid, ln, mid1, glue = out
        cps = cps_of(s)
        cl = [And(ok_result(ln), isint(ln['result']) and ln['result'] == L)]
        neg = n < 0
        cl.append(Implies(neg, And(err_is(left, '#VALUE!'), err_is(right, '#VALUE!'), err_is(mid, '#VALUE!'))))
        for m in range(0, L + 1):
            cond = (n == m) if m < L else (n >= L)
            cl.append(Implies(cond, And(left['error'] is None, text_eq(left['result'], mkstr(cps[:m])),
                                        right['error'] is None, text_eq(right['result'], mkstr(cps[L - m:])),
                                        mid1['error'] is None, text_eq(mid1['result'], mkstr(cps[:m])))))
        # MID(s, k, n): k < 1 -> #VALUE!; else characters k .. k+n-1 clipped to the text
        cl.append(Implies(k < 1, err_is(mid, '#VALUE!')))
        for a in range(1, L + 2):
            ca = (k == a) if a <= L else (k > L)
            for m in range(0, L + 1):
                cm = (n == m) if m < L else (n >= L)
                start = min(a - 1, L)
                cl.append(Implies(And(ca, cm), And(mid['error'] is None, text_eq(mid['result'], mkstr(cps[start:start + m])))))
        cl.append(Implies(And(n >= 0, n <= L), And(glue['error'] is None, text_eq(glue['result'], s))))
        return And(*cl)


@register
class LenConcat(_Text):
    name = 'C15.len_concat'
    doc = 'LEN(a&b) = LEN(a)+LEN(b); CONCATENATE joins its flattened items in order (text verbatim, integers as digits)'
    functions = ('text.LEN', 'text.CONCATENATE', 'utils.iflatten')
    bounds = 'texts of length 0..2 over all code points; the law LEN(a&b)=LEN(a)+LEN(b) also for integer (|n| <= 10^9, and 0) and logical operands; CONCATENATE of up to 3 items (text / integer |n|<10^4), flat or with the first two in an array'

    def cases(self, tier):
        out = [{'what': 'len', 'la': a, 'lb': b} for a in (0, 1, 2) for b in (0, 1, 2)]
        # the law itself, also for operands that & turns into text: integers and logicals
        kinds = ('t1', 't2', 'int', 'bool', 'zero')
        out += [{'what': 'law', 'ka': a, 'kb': b} for a in kinds for b in kinds if not (a[0] == 't' and b[0] == 't')]
        for n in (1, 2, 3):
            for nested in (False, True):
                if nested and n < 2:
                    continue
                out.append({'what': 'concat', 'n': n, 'nested': nested})
        return out

    def run(self, env, inp, p):
        e = E.cur() if env.symbolic else None
        if p['what'] == 'len':
            if env.symbolic:
                inp['a'] = e.fresh_str('a', p['la']) if p['la'] else ''
                inp['b'] = e.fresh_str('b', p['lb']) if p['lb'] else ''
            return self.parse_with(env, 'LEN(va&vb)', {'va': inp['a'], 'vb': inp['b']})
        if p['what'] == 'law':
            if env.symbolic:
                mk = lambda k, n: {'t1': lambda: e.fresh_str(n, 1), 't2': lambda: e.fresh_str(n, 2), 'int': lambda: e.fresh_int(n, -10 ** 9, 10 ** 9),
                                   'bool': lambda: e.fresh_bool(n), 'zero': lambda: 0}[k]()
                inp['a'] = mk(p['ka'], 'a')
                inp['b'] = mk(p['kb'], 'b')
            vs = {'va': inp['a'], 'vb': inp['b']}
            return [self.parse_with(env, f, vs) for f in ('LEN(va&vb)', 'LEN(va)', 'LEN(vb)')]
        if env.symbolic:
            items = []
            for i in range(p['n']):
                kind = ('t0', 't1', 't2', 'int')[e.choose(4)]
                if kind == 'int':
                    items.append(e.fresh_int('i%d' % i, -9999, 9999))
                else:
                    L = int(kind[1])
                    items.append(e.fresh_str('t%d' % i, L) if L else '')
            inp['items'] = items
        names = ['v%s' % 'abc'[i] for i in range(p['n'])]
        vs = dict(zip(names, inp['items']))
        if p['nested']:
            f = 'CONCATENATE({%s,%s}%s)' % (names[0], names[1], ''.join(',' + x for x in names[2:]))
        else:
            f = 'CONCATENATE(%s)' % ','.join(names)
        return self.parse_with(env, f, vs)

    def post(self, env, inp, out, p):
        if p['what'] == 'law':
            if isinstance(out, Raised) or not all(ok_result(o) and isint(o['result']) for o in out):
                return False
            ab, a, b = [o['result'] for o in out]
            cl = [ab == a + b]
            for k, r in ((p['ka'], a), (p['kb'], b)):
                if k[0] == 't':
                    cl.append(r == int(k[1]))
                elif k == 'zero':
                    cl.append(r == 1)
                else:
                    cl.append(r >= 1)
            return And(*cl)
        if not ok_result(out):
            return False
        if p['what'] == 'len':
            return isint(out['result']) and out['result'] == p['la'] + p['lb']
        want = ''
        for it in inp['items']:
            want = want + (it if isstr(it) else (models.m_str(it) if env.symbolic else str(it)))
        return text_eq(out['result'], want)


def ref_trim(cps):
    """reference TRIM: drop leading/trailing spaces, collapse inner runs of spaces to one (only U+0020 counts)"""
    out = []
    pending = False
    for c in cps:
        if T(mkbool(z3.simplify(zcp(c) == 32))):
            pending = bool(out)
        else:
            if pending:
                out.append(32)
            pending = False
            out.append(c)
    return out


def ref_clean(cps):
    return [c for c in cps if not T(mkbool(z3.simplify(zcp(c) <= 31)))]


@register
class Cleaners(_Text):
    name = 'C15.trim_clean'
    doc = 'TRIM changes only surplus spaces, CLEAN only control characters; both idempotent'
    functions = ('text.TRIM', 'text.CLEAN')
    bounds = 'text of length 0..6 (quick) / 0..10 (thorough) over all code points'

    def cases(self, tier):
        return [{'fn': f, 'L': L} for f in ('TRIM', 'CLEAN') for L in self.lens(tier)]

    def build(self, e, p):
        return {'s': e.fresh_str('s', p['L']) if p['L'] else ''}

    def run(self, env, inp, p):
        vs = {'vs': inp['s']}
        return [self.parse_with(env, '%s(vs)' % p['fn'], vs), self.parse_with(env, '%s(%s(vs))' % (p['fn'], p['fn']), vs)]

    def post(self, env, inp, out, p):
        if isinstance(out, Raised) or not all(ok_result(o) for o in out):
            return False
        cps = cps_of(inp['s'])
        want = mkstr(ref_trim(cps) if p['fn'] == 'TRIM' else ref_clean(cps))
        return And(text_eq(out[0]['result'], want), text_eq(out[1]['result'], want))


@register
class Case(_Text):
    name = 'C15.case'
    doc = 'UPPER / LOWER / PROPER change only letter case and are idempotent; UPPER leaves no lower-case letter, LOWER no ' \
          'upper-case letter, PROPER capitalises exactly the letters that follow a non-letter'
    functions = ('text.UPPER', 'text.LOWER', 'text.PROPER')
    bounds = 'text of length 0..6 (quick) / 0..10 (thorough) over ASCII (0..127); any integer |n| <= 10^6 in place of the text (also CLEAN)'
    outside = ('non-ASCII alphabets (Unicode case mapping is not modelled)',)

    def cases(self, tier):
        return [{'fn': f, 'L': L} for f in ('UPPER', 'LOWER', 'PROPER') for L in self.lens(tier)] + \
               [{'fn': f, 'L': -1} for f in ('UPPER', 'LOWER', 'PROPER', 'CLEAN')]

    def build(self, e, p):
        if p['L'] < 0:
            return {'s': e.fresh_int('s', -10 ** 6, 10 ** 6)}      # a number has no letters: its digits come back
        return {'s': e.fresh_str('s', p['L'], alphabet=ASCII) if p['L'] else ''}

    def run(self, env, inp, p):
        vs = {'vs': inp['s']}
        return [self.parse_with(env, '%s(vs)' % p['fn'], vs), self.parse_with(env, '%s(%s(vs))' % (p['fn'], p['fn']), vs)]

    def post(self, env, inp, out, p):
        if isinstance(out, Raised) or not all(ok_result(o) for o in out):
            return False
        r, rr = out[0]['result'], out[1]['result']
        if p['L'] < 0:
            n = inp['s']
            digits = models.m_str(n) if env.symbolic else str(n)
            return And(Or(text_eq(r, digits), isint(r) and r == n), Or(text_eq(rr, digits), isint(rr) and rr == n))
        cps = cps_of(inp['s'])
        if not isstr(r) or len(r) != len(cps):
            return False
        rc = cps_of(r)
        up = lambda c: z3.And(c >= 65, c <= 90)
        lo = lambda c: z3.And(c >= 97, c <= 122)
        low = lambda c: z3.If(up(c), c + 32, c)
        cl = [text_eq(rr, r)]
        prev_letter = z3.BoolVal(False)
        for c, d in zip(cps, rc):
            c, d = zcp(c), zcp(d)
            cl.append(mkbool(z3.simplify(low(c) == low(d))))          # only case may change
            if p['fn'] == 'UPPER':
                cl.append(mkbool(z3.simplify(z3.Not(lo(d)))))
            elif p['fn'] == 'LOWER':
                cl.append(mkbool(z3.simplify(z3.Not(up(d)))))
            else:
                letter = z3.Or(up(c), lo(c))
                cl.append(mkbool(z3.simplify(z3.Implies(letter, z3.If(prev_letter, lo(d), up(d))))))
                prev_letter = letter
        return And(*cl)


@register
class CharCode(_Text):
    name = 'C15.charcode'
    doc = 'CODE(CHAR(n)) = n'
    functions = ('text.CHAR', 'text.CODE')
    bounds = 'every n in 1..0x10FFFF'

    def build(self, e, p):
        return {'n': e.fresh_int('n', 1, 0x10FFFF)}

    def run(self, env, inp, p):
        return self.parse_with(env, 'CODE(CHAR(vn))', {'vn': inp['n']})

    def post(self, env, inp, out, p):
        return And(ok_result(out), isint(out['result']) and out['result'] == inp['n'])


@register
class TextJoin(_Text):
    name = 'C15.textjoin'
    doc = 'TEXTJOIN joins its flattened items in order with the delimiter between items, skipping blanks when asked to ' \
          '(and treating them as empty text otherwise)'
    functions = ('text.TEXTJOIN', 'utils.iflatten')
    bounds = 'delimiter of length 0..1, up to 3 items each a text of length 0..1 (all code points) or blank, flat or first two in an array; both ignore_empty settings'

    def cases(self, tier):
        out = []
        for n in (1, 2, 3):
            for ign in (True, False):
                for nested in (False, True):
                    if nested and n < 2:
                        continue
                    out.append({'n': n, 'ign': ign, 'nested': nested})
        return out

    def run(self, env, inp, p):
        e = E.cur() if env.symbolic else None
        if env.symbolic:
            inp['delim'] = e.fresh_str('d', 1) if e.choose(2) else ''
            items = []
            for i in range(p['n']):
                k = e.choose(3)
                items.append(None if k == 0 else ('' if k == 1 else e.fresh_str('t%d' % i, 1)))
            inp['items'] = items
        names = ['v%s' % 'abc'[i] for i in range(p['n'])]
        vs = dict(zip(names, inp['items']))
        vs['vd'] = inp['delim']
        args = ('{%s,%s}%s' % (names[0], names[1], ''.join(',' + x for x in names[2:]))) if p['nested'] else ','.join(names)
        return self.parse_with(env, 'TEXTJOIN(vd,%s,%s)' % ('TRUE' if p['ign'] else 'FALSE', args), vs)

    def post(self, env, inp, out, p):
        if not ok_result(out):
            return False
        items = [x for x in inp['items'] if not (p['ign'] and x is None)]
        items = ['' if x is None else x for x in items]
        want = ''
        for i, it in enumerate(items):
            if i:
                want = want + inp['delim']
            want = want + it
        return text_eq(out['result'], want)


def ref_substitute(text, old, new, k):
    """reference: left-to-right non-overlapping occurrences of old; replace all (k None) or only the k-th"""
    tc, oc, nc = cps_of(text), cps_of(old), cps_of(new)
    out = []
    i = 0
    occ = 0
    n, m = len(tc), len(oc)
    while i < n:
        hit = False
        if i + m <= n:
            hit = T(mkbool(z3.simplify(z3.And(*[zcp(tc[i + j]) == zcp(oc[j]) for j in range(m)]))))
        if hit:
            occ += 1
            if k is None or occ == k:
                out.extend(nc)
            else:
                out.extend(tc[i:i + m])
            i += m
        else:
            out.append(tc[i])
            i += 1
    return mkstr(out)


@register
class Substitute(_Text):
    name = 'C15.substitute'
    doc = 'SUBSTITUTE replaces every occurrence of the old text (or only the k-th) by the new text, including by empty text; ' \
          'unchanged when there is no such occurrence'
    functions = ('text.SUBSTITUTE',)
    bounds = 'text of length 1..3 (quick) / 1..4 (thorough), old text of length 1 or 2 (two distinct characters: not ' \
             'self-overlapping), new text of length 0..2, instance number absent or 1..3; all code points'
    outside = ('self-overlapping old text', 'old text longer than 2')

    def cases(self, tier):
        Ls = (1, 2, 3) if tier == 'quick' else (1, 2, 3, 4)
        out = []
        for L in Ls:
            for lo in (1, 2):
                if lo > L:
                    continue
                for ln in (0, 1, 2):
                    for k in (None, 1, 2, 3):
                        if k is not None and k > L // lo:
                            if k > 1 + L // lo:
                                continue
                        out.append({'L': L, 'lo': lo, 'ln': ln, 'k': k})
        return out

    def build(self, e, p):
        old = e.fresh_str('o', p['lo'])
        if p['lo'] == 2:
            e.add(old.cps[0] != old.cps[1])
        return {'t': e.fresh_str('t', p['L']), 'o': old, 'n': e.fresh_str('n', p['ln']) if p['ln'] else ''}

    def run(self, env, inp, p):
        vs = {'vt': inp['t'], 'vo': inp['o'], 'vn': inp['n']}
        f = 'SUBSTITUTE(vt,vo,vn)' if p['k'] is None else 'SUBSTITUTE(vt,vo,vn,%d)' % p['k']
        return self.parse_with(env, f, vs)

    def post(self, env, inp, out, p):
        if not ok_result(out):
            return False
        want = ref_substitute(inp['t'], inp['o'], inp['n'], p['k'])
        return text_eq(out['result'], want)
