"""C16 - real-valued math and PV: the parts a solver can decide.

NOT decided here (stated as outside the claim in MANIFEST / DESIGN): the numeric VALUES of the elementary functions and
their identities (sin^2+cos^2=1, EXP(LN x)=x, ...): the functions are libm calls, SMT has no theory for them.  They are
uninterpreted stubs with their documented domain contract; what is decided is the argument coercion, the domain / error
mapping, ATAN2's error set, PV's annuity equation over the reals, and the RAND ranges.
"""
import z3
from ..harness import Harness, register, Raised
from ..spec import And, Or, Not, Implies, Iff, tb
from ..values import SymInt, SymBool, SymFloat, SymStr, zint, mkint, mkbool, zbool, _floatval_nofork
from .. import engine as E
from .. import models
from .common import ok_result, err_is, any_error, is_record, isint, isnum, isstr, numtext, LETTERS

R = z3.RealVal
# function -> domain predicate over the real argument (None = all reals)
UNARY = {
    'ABS': None, 'SIN': None, 'COS': None, 'TAN': None, 'ATAN': None, 'SINH': None, 'COSH': None, 'TANH': None, 'ASINH': None,
    'EXP': None, 'RADIANS': None, 'DEGREES': None, 'ACOT': None,
    'SQRT': lambda x: x >= 0, 'LN': lambda x: x > 0, 'LOG10': lambda x: x > 0, 'LOG': lambda x: x > 0,
    'ASIN': lambda x: z3.And(x >= -1, x <= 1), 'ACOS': lambda x: z3.And(x >= -1, x <= 1),
    'ACOSH': lambda x: x >= 1, 'ATANH': lambda x: z3.And(x > -1, x < 1), 'ACOTH': lambda x: z3.Or(x > 1, x < -1),
    'COT': lambda x: x != 0,
}
# for these the libm call must receive exactly the number the operand denotes
DIRECT = {'SIN': 'sin', 'COS': 'cos', 'TAN': 'tan', 'ATAN': 'atan', 'SINH': 'sinh', 'COSH': 'cosh', 'TANH': 'tanh',
          'ASINH': 'asinh', 'SQRT': 'sqrt', 'LN': 'log', 'ASIN': 'asin', 'ACOS': 'acos', 'ATANH': 'atanh'}
OPERAND_TAGS = ['int', 'float', 'bool', 'numtext', 'negnumtext', 'textforms']
# other spellings of numbers that float() accepts: concrete texts (a finite enumeration, flagged as such in the bounds)
TEXT_FORMS = ['1e4', '-2.5E-3', '1.5e-07', ' 7 ', '+3', '.5', '5.', '-.25', '00012', '2.50', '+.5', '.5e1']


def T(x):
    return x is True or (x is not False and bool(x))


def make_operand(e, tag):
    """(value for the code, z3 Real of the number it denotes)"""
    if tag == 'int':
        v = e.fresh_int('x', -10 ** 6, 10 ** 6)
        return v, z3.ToReal(v.z)
    if tag == 'float':
        v = e.fresh_real('x', -10 ** 6, 10 ** 6)
        # input floats are modelled as reals; reals closer than 2^-30 to a domain boundary (-1, 0, 1) without being
        # equal to it have no counterpart among the doubles the abstraction could name: excluded (stated bound)
        gap = z3.RealVal(1) / 2 ** 30
        for c in (-1, 0, 1):
            e.add(z3.Or(v.r == c, v.r - c >= gap, c - v.r >= gap))
        return v, v.r
    if tag == 'bool':
        v = e.fresh_bool('x')
        return v, z3.ToReal(zint(v))
    if tag == 'textforms':
        t = TEXT_FORMS[e.choose(len(TEXT_FORMS))]
        return t, _floatval_nofork(float(t))
    t, n = numtext(e, 'x', 2, sign='-' if tag == 'negnumtext' else None)
    return t, z3.ToReal(zint(n))


@register
class Domains(Harness):
    name = 'C16.domains'
    prop = 'C16'
    doc = 'the elementary functions accept numbers, logicals and numeric text as the number they denote, hand exactly that ' \
          'number to the library routine, return a number inside their domain and an error - never a number - outside it ' \
          'or for non-numeric text'
    functions = tuple('mathtrig.' + f for f in UNARY) + ('utils.parse_number', 'helper.number.to_number', 'Parser.parse')
    bounds = 'argument: any integer / real in +-10^6 (reals equal to, or at least 2^-30 away from, the domain boundaries -1, 0, 1), ' \
             'logical, numeric text of 2 digits with optional minus, 12 further concrete spellings (exponent forms, padding, sign, ' \
             'leading / trailing decimal point), text of 2 letters'
    outside = ('the numeric value returned inside the domain (libm; no SMT theory) and every identity between the functions',
               'arguments so large that the float result overflows')
    stubs = ('math.* = uninterpreted function + documented domain contract (ValueError / ZeroDivisionError outside it)',)

    def cases(self, tier):
        out = []
        for f in UNARY:
            for tag in OPERAND_TAGS:
                out.append({'fn': f, 'tag': tag})
            out.append({'fn': f, 'tag': 'text'})
        return out

    def build(self, e, p):
        e.float_bound = 'relative'      # cancellation near the domain boundary (x - 1 for x close to 1) needs the relative model
        if p['tag'] == 'text':
            alpha = [(ord(c), ord(c)) for c in 'bcdghjklmopqrsuvwxz']
            return {'x': e.fresh_str('x', 2, alphabet=alpha)}
        v, r = make_operand(e, p['tag'])
        e.denoted = r
        return {'x': v}

    def run(self, env, inp, p):
        return self.parse_with(env, '%s(vx)' % p['fn'], {'vx': inp['x']})

    def _denoted(self, env, x):
        if env.symbolic:
            return E.cur().denoted
        if isinstance(x, str):
            try:
                return _floatval_nofork(int(x))
            except ValueError:
                return _floatval_nofork(float(x))
        return _floatval_nofork(int(x) if isinstance(x, bool) else x)

    def post(self, env, inp, out, p):
        if not is_record(out):
            return False
        if p['tag'] == 'text':
            return any_error(out)
        d = self._denoted(env, inp['x'])
        if p['fn'] in ('EXP', 'COSH', 'SINH'):
            # beyond |x| = 700 the double result overflows (OverflowError -> an error): outside the claim
            if T(mkbool(z3.simplify(z3.Or(d > 700, d < -700)))):
                return True
        dom = UNARY[p['fn']]
        inside = True if dom is None else mkbool(z3.simplify(dom(d)))
        if not T(inside):
            return any_error(out)
        r = out['result']
        ok = And(out['error'] is None, isnum(r) and not isinstance(r, (bool, SymBool)))
        if env.symbolic and p['fn'] in DIRECT:
            calls = [c for c in E.cur().math_calls if c[0] == DIRECT[p['fn']]]
            if len(calls) != 1:
                return False
            ok = And(ok, mkbool(z3.simplify(calls[0][1][0] == d)))
        return ok


@register
class Atan2(Harness):
    name = 'C16.atan2'
    prop = 'C16'
    doc = 'ATAN2(x, y) is #DIV/0! exactly at the origin and a number everywhere else'
    functions = ('mathtrig.ATAN2',)
    bounds = 'all pairs of integers / reals in +-10^6'

    def cases(self, tier):
        return [{'tx': a, 'ty': b} for a in ('int', 'float') for b in ('int', 'float')]

    def build(self, e, p):
        mk = lambda t, n: e.fresh_int(n, -10 ** 6, 10 ** 6) if t == 'int' else e.fresh_real(n, -10 ** 6, 10 ** 6)
        return {'x': mk(p['tx'], 'x'), 'y': mk(p['ty'], 'y')}

    def run(self, env, inp, p):
        return self.parse_with(env, 'ATAN2(vx,vy)', {'vx': inp['x'], 'vy': inp['y']})

    def post(self, env, inp, out, p):
        if not is_record(out):
            return False
        origin = And(inp['x'] == 0, inp['y'] == 0)
        if T(origin):
            return err_is(out, '#DIV/0!')
        return And(out['error'] is None, isnum(out['result']))


@register
class PresentValue(Harness):
    name = 'C16.pv'
    prop = 'C16'
    doc = 'PV satisfies the annuity equation pv(1+r)^n + pmt(1+r*type)((1+r)^n-1)/r + fv = 0 (linear form at r = 0) in exact real arithmetic'
    functions = ('financial.PV',)
    bounds = 'periods n = 0..8 with the power as repeated multiplication, and any real n in [0, 400] with the power (1+r)^n as ' \
             'one uninterpreted positive value; type 0/1, rate any real > -1 (split: rate = 0 / rate != 0), payment and future value any reals; ' \
             'floating-point rounding is outside the claim (operations taken as exact reals; z3 non-linear real arithmetic)'
    outside = ('rounding error of the float evaluation', 'the value of (1+r)^n for non-integer n (C library)')
    solver_timeout_ms = {'quick': 60000, 'thorough': 120000}

    def cases(self, tier):
        out = [{'n': n, 'type': t, 'zero': z} for n in range(0, 9) for t in (0, 1) for z in (False, True)]
        # any real number of periods (also non-integer): the power (1+r)^n is then one uninterpreted positive value
        out += [{'n': 'real', 'type': t, 'zero': z} for t in (0, 1) for z in (False, True)]
        return out

    def build(self, e, p):
        e.exact_floats = True
        rate = 0 if p['zero'] else e.fresh_real('r')
        if not p['zero']:
            e.add(rate.r > -1, rate.r != 0)
        d = {'rate': rate, 'pmt': e.fresh_real('pmt'), 'fv': e.fresh_real('fv')}
        if p['n'] == 'real':
            d['n'] = e.fresh_real('n', 0, 400)
        return d

    def run(self, env, inp, p):
        n = inp['n'] if p['n'] == 'real' else p['n']
        return self.parse_with(env, 'PV(vr,vn,vp,vf,vt)', {'vr': inp['rate'], 'vn': n, 'vp': inp['pmt'], 'vf': inp['fv'], 'vt': p['type']})

    def post(self, env, inp, out, p):
        if not ok_result(out) or not isnum(out['result']):
            return False
        pv = _floatval_nofork(out['result'])
        pmt, fv = _floatval_nofork(inp['pmt']), _floatval_nofork(inp['fv'])
        n, t = p['n'], p['type']
        if n == 'real':
            n = _floatval_nofork(inp['n']) if env.symbolic else float(inp['n'])
        if p['zero']:
            lhs = pv + pmt * n + fv
            if not env.symbolic:
                lhs_v = float(out['result']) + float(inp['pmt']) * n + float(inp['fv'])
                return abs(lhs_v) <= 1e-6 * (1 + abs(float(inp['pmt']) * n) + abs(float(inp['fv'])))
            return mkbool(z3.simplify(lhs == 0))
        r = _floatval_nofork(inp['rate'])
        if p['n'] == 'real' and env.symbolic:
            from ..models import uf_real
            g = uf_real('pow', z3.simplify(1 + r), n)
        else:
            g = R(1)
            for _ in range(n if p['n'] != 'real' else 0):
                g = g * (1 + r)
        if not env.symbolic:
            rv, pm, f, pvv = float(inp['rate']), float(inp['pmt']), float(inp['fv']), float(out['result'])
            gv = (1 + rv) ** n
            lhs_v = pvv * gv + pm * (1 + rv * t) * (gv - 1) / rv + f
            scale = 1 + abs(pvv * gv) + abs(pm * (1 + rv * t) * (gv - 1) / rv) + abs(f)
            return abs(lhs_v) <= 1e-6 * scale
        # multiply through by r (r != 0): pv*g*r + pmt*(1 + r*type)*(g - 1) + fv*r = 0
        lhs = pv * g * r + pmt * (1 + r * t) * (g - 1) + fv * r
        return mkbool(lhs == 0)


@register
class Random(Harness):
    name = 'C16.random'
    prop = 'C16'
    doc = 'RAND lies in [0,1); RANDBETWEEN(a,b) is an integer in [a,b] (under the contract of the random module)'
    functions = ('mathtrig.RAND', 'mathtrig.RANDBETWEEN')
    bounds = 'a <= b integers in +-10^6, and reals a <= b in +-10^6 with at least one integer between them'
    stubs = ('random.random() returns any real in [0,1); random.randint(lo,hi) returns any integer in [lo,hi]',)
    step_budget = 20000000

    def cases(self, tier):
        return [{'fn': 'RAND'}, {'fn': 'RANDBETWEEN', 'tag': 'int'}, {'fn': 'RANDBETWEEN', 'tag': 'float'}]

    def build(self, e, p):
        if p['fn'] == 'RAND':
            return {}
        if p['tag'] == 'int':
            a, b = e.fresh_int('a', -10 ** 6, 10 ** 6), e.fresh_int('b', -10 ** 6, 10 ** 6)
            e.add(a.z <= b.z)
        else:
            # a = ka - fa, b = kb + fb with integers ka <= kb and fractions in [0,1): at least one integer lies between
            a, b = e.fresh_real('a', -10 ** 6, 10 ** 6), e.fresh_real('b', -10 ** 6, 10 ** 6)
            ka, kb, fa, fb = z3.Int('ka'), z3.Int('kb'), z3.Real('fa'), z3.Real('fb')
            e.add(ka <= kb, fa >= 0, fa < 1, fb >= 0, fb < 1, a.r == z3.ToReal(ka) - fa, b.r == z3.ToReal(kb) + fb)
        return {'a': a, 'b': b}

    def run(self, env, inp, p):
        if p['fn'] == 'RAND':
            return self.parse_with(env, 'RAND()', {})
        if not env.symbolic:
            # the replay side cannot choose the random draw: sample it (a violation shows with probability ~ 1/(b-a+1) per draw)
            outs = [self.parse_with(env, 'RANDBETWEEN(va,vb)', {'va': inp['a'], 'vb': inp['b']}) for _ in range(60)]
            bad = [o for o in outs if not self._ok(inp, o)]
            return bad[0] if bad else outs[0]
        return self.parse_with(env, 'RANDBETWEEN(va,vb)', {'va': inp['a'], 'vb': inp['b']})

    def _ok(self, inp, out):
        if not ok_result(out):
            return False
        r = out['result']
        return And(isint(r), r >= inp['a'], r <= inp['b'])

    def post(self, env, inp, out, p):
        if p['fn'] == 'RAND':
            if not ok_result(out) or not isnum(out['result']):
                return False
            return And(out['result'] >= 0, out['result'] < 1)
        return self._ok(inp, out)
