"""Compact model of datetime.datetime / timedelta / time on z3 terms (proleptic Gregorian ordinal +
microsecond of day), following CPython's _pydatetime algorithms.  Validated against the real datetime
in selftest."""
import datetime as _dt
import z3
from . import engine as E
from .engine import Unmodelled
from .values import (SymInt, SymBool, SymFloat, SymStr, zint, mkint, mkbool, fdiv, fmod, float_binop, is_numlike, zcp,
                     concretize_int, TWO53)
from . import models

US_DAY = 86400 * 10 ** 6
_DBM = [0, 0, 31, 59, 90, 120, 151, 181, 212, 243, 273, 304, 334]   # days before month (non-leap)
_DIM = [0, 31, 28, 31, 30, 31, 30, 31, 31, 30, 31, 30, 31]
MAXORD = _dt.date.max.toordinal()


def zleap(y):
    return z3.And(y % 4 == 0, z3.Or(y % 100 != 0, y % 400 == 0))


def z_days_before_year(y):
    y1 = y - 1
    return y1 * 365 + y1 / 4 - y1 / 100 + y1 / 400      # y >= 1 so z3 div == floor div


def z_days_in_month(y, m):
    e = z3.IntVal(31)
    for k in range(1, 13):
        if k == 2:
            e = z3.If(m == 2, z3.If(zleap(y), 29, 28), e)
        elif _DIM[k] != 31:
            e = z3.If(m == k, _DIM[k], e)
    return e


def z_days_before_month(y, m):
    e = z3.IntVal(0)
    for k in range(12, 1, -1):
        e = z3.If(m == k, _DBM[k], e)
    return e + z3.If(z3.And(m > 2, zleap(y)), 1, 0)


def z_ymd2ord(y, m, d):
    if z3.is_int_value(m):
        k = m.as_long()
        return z3.simplify(z_days_before_year(y) + _DBM[k] + (z3.If(zleap(y), 1, 0) if k > 2 else 0) + d)
    return z_days_before_year(y) + z_days_before_month(y, m) + d


def z_ord2ymd(n):
    """CPython's _ord2ymd on a z3 Int ordinal (1 <= n <= MAXORD)."""
    n = n - 1
    n400 = n / 146097
    n = n % 146097
    year = n400 * 400 + 1
    n100 = n / 36524
    n = n % 36524
    n4 = n / 1461
    n = n % 1461
    n1 = n / 365
    n = n % 365
    year = year + n100 * 100 + n4 * 4 + n1
    special = z3.Or(n1 == 4, n100 == 4)
    leapyear = z3.And(n1 == 3, z3.Or(n4 != 24, n100 == 3))
    # month estimate (n + 50) >> 5, then correction
    month = (n + 50) / 32
    dbm = lambda mm: sum_ite(mm) + z3.If(z3.And(mm > 2, leapyear), 1, 0)
    preceding = dbm(month)
    over = preceding > n
    month2 = z3.If(over, month - 1, month)
    dim_m2 = z3.If(z3.And(month2 == 2, leapyear), 29, table(month2, _DIM))
    preceding2 = z3.If(over, preceding - dim_m2, preceding)
    day = n - preceding2 + 1
    y = z3.If(special, year - 1, year)
    m = z3.If(special, 12, month2)
    d = z3.If(special, 31, day)
    return y, m, d


def table(m, tab):
    e = z3.IntVal(tab[12])
    for k in range(11, 0, -1):
        e = z3.If(m == k, tab[k], e)
    return e


def sum_ite(m):
    return table(m, _DBM)


def _zi(x, what):
    """z3 Int of an integer-like constructor argument (TypeError as CPython for floats / str)."""
    if isinstance(x, (SymFloat, float)):
        raise TypeError("'float' object cannot be interpreted as an integer")
    if isinstance(x, (SymStr, str)):
        raise TypeError("'str' object cannot be interpreted as an integer")
    if x is None:
        raise TypeError("'NoneType' object cannot be interpreted as an integer")
    z = zint(x)
    if z is None:
        raise TypeError("an integer is required (got type %s)" % type(x).__name__)
    return z


def _test(z):
    return bool(SymBool(z3.simplify(z)))


class SymTimedelta(object):
    __is_sym__ = True
    __pytype__ = _dt.timedelta
    __slots__ = ('us',)

    def __init__(self, us):
        self.us = us   # z3 Int: total microseconds

    def total_seconds(self):
        return float_binop('/', mkint(self.us), 10 ** 6)

    @property
    def days(self):
        return mkint(fdiv(self.us, z3.IntVal(US_DAY)))

    @property
    def seconds(self):
        r = self.us - US_DAY * fdiv(self.us, z3.IntVal(US_DAY))
        return mkint(fdiv(r, z3.IntVal(10 ** 6)))

    @property
    def microseconds(self):
        return mkint(fmod(self.us, z3.IntVal(10 ** 6)))

    def __radd__(self, o):
        return self.__add__(o)

    def __add__(self, o):
        if isinstance(o, (SymDateTime, _dt.datetime)):
            return as_sym_dt(o)._shift(self.us)
        if isinstance(o, (SymTimedelta, _dt.timedelta)):
            return SymTimedelta(self.us + td_us(o))
        return NotImplemented

    def __neg__(self):
        return SymTimedelta(-self.us)

    def __hash__(self):
        raise Unmodelled('hash of symbolic timedelta')

    def _cmp(self, o, f):
        if not isinstance(o, (SymTimedelta, _dt.timedelta)):
            return NotImplemented
        return mkbool(z3.simplify(f(self.us, td_us(o))))

    def __eq__(self, o): return self._cmp(o, lambda a, b: a == b)
    def __ne__(self, o): return self._cmp(o, lambda a, b: a != b)
    def __lt__(self, o): return self._cmp(o, lambda a, b: a < b)
    def __le__(self, o): return self._cmp(o, lambda a, b: a <= b)
    def __gt__(self, o): return self._cmp(o, lambda a, b: a > b)
    def __ge__(self, o): return self._cmp(o, lambda a, b: a >= b)

    def __sym_concretize__(self, model):
        return _dt.timedelta(microseconds=model.eval(self.us, model_completion=True).as_long())


class HostStamp(_dt.datetime):
    """a host application's own date-time class (as pandas.Timestamp is): a datetime.datetime by isinstance, not by type()"""
    pass


def td_us(o):
    if isinstance(o, SymTimedelta):
        return o.us
    return z3.IntVal((o.days * 86400 + o.seconds) * 10 ** 6 + o.microseconds)


class SymTime(object):
    __is_sym__ = True
    __pytype__ = _dt.time
    __slots__ = ('us',)

    def __init__(self, us):
        self.us = us

    hour = property(lambda s: mkint(fdiv(s.us, z3.IntVal(3600 * 10 ** 6))))
    minute = property(lambda s: mkint(fmod(fdiv(s.us, z3.IntVal(60 * 10 ** 6)), z3.IntVal(60))))
    second = property(lambda s: mkint(fmod(fdiv(s.us, z3.IntVal(10 ** 6)), z3.IntVal(60))))
    microsecond = property(lambda s: mkint(fmod(s.us, z3.IntVal(10 ** 6))))

    def __sym_concretize__(self, model):
        u = model.eval(self.us, model_completion=True).as_long()
        return (_dt.datetime.min + _dt.timedelta(microseconds=u)).time()


class SymDateTime(object):
    """ordinal: z3 Int (1..MAXORD); us: z3 Int microsecond of day; ymd: optional cached (y, m, d) terms."""
    __is_sym__ = True
    __pytype__ = _dt.datetime
    __slots__ = ('ord', 'us', 'ymd')

    def __init__(self, ordinal, us, ymd=None):
        self.ord = ordinal
        self.us = us
        self.ymd = ymd

    # construction ---------------------------------------------------------------------------
    @staticmethod
    def construct(year, month, day, hour=0, minute=0, second=0, microsecond=0, tzinfo=None, **kw):
        if tzinfo is not None or kw:
            raise Unmodelled('datetime with tzinfo/fold')
        y, m, d = _zi(year, 'year'), _zi(month, 'month'), _zi(day, 'day')
        H, M, S, U = _zi(hour, 'hour'), _zi(minute, 'minute'), _zi(second, 'second'), _zi(microsecond, 'microsecond')
        if not _test(z3.And(y >= 1, y <= 9999)):
            raise ValueError('year is out of range')
        if not _test(z3.And(m >= 1, m <= 12)):
            raise ValueError('month must be in 1..12')
        if not _test(z3.And(d >= 1, d <= z_days_in_month(y, m))):
            raise ValueError('day is out of range for month')
        if not _test(z3.And(H >= 0, H <= 23)):
            raise ValueError('hour must be in 0..23')
        if not _test(z3.And(M >= 0, M <= 59)):
            raise ValueError('minute must be in 0..59')
        if not _test(z3.And(S >= 0, S <= 59)):
            raise ValueError('second must be in 0..59')
        if not _test(z3.And(U >= 0, U <= 999999)):
            raise ValueError('microsecond must be in 0..999999')
        y, m, d = z3.simplify(y), z3.simplify(m), z3.simplify(d)
        us = z3.simplify(((H * 60 + M) * 60 + S) * 10 ** 6 + U)
        return SymDateTime.make(z_ymd2ord(y, m, d), us, (y, m, d))

    @staticmethod
    def make(ordinal, us, ymd=None):
        ordinal = z3.simplify(ordinal)
        us = z3.simplify(us)
        if z3.is_int_value(ordinal) and z3.is_int_value(us):
            return _dt.datetime.fromordinal(ordinal.as_long()) + _dt.timedelta(microseconds=us.as_long())
        return SymDateTime(ordinal, us, ymd)

    def _shift(self, dus):
        total = (self.ord * US_DAY + self.us) + dus
        o2 = fdiv(total, z3.IntVal(US_DAY))
        u2 = total - o2 * US_DAY
        if not _test(z3.And(o2 >= 1, o2 <= MAXORD)):
            raise OverflowError('date value out of range')
        return SymDateTime.make(o2, u2)

    # components ------------------------------------------------------------------------------
    def _ymd(self):
        if self.ymd is None:
            self.ymd = tuple(z3.simplify(t) for t in z_ord2ymd(self.ord))
        return self.ymd

    year = property(lambda s: mkint(s._ymd()[0]))
    month = property(lambda s: mkint(s._ymd()[1]))
    day = property(lambda s: mkint(s._ymd()[2]))
    hour = property(lambda s: mkint(fdiv(s.us, z3.IntVal(3600 * 10 ** 6))))
    minute = property(lambda s: mkint(fmod(fdiv(s.us, z3.IntVal(60 * 10 ** 6)), z3.IntVal(60))))
    second = property(lambda s: mkint(fmod(fdiv(s.us, z3.IntVal(10 ** 6)), z3.IntVal(60))))
    microsecond = property(lambda s: mkint(fmod(s.us, z3.IntVal(10 ** 6))))
    tzinfo = None

    def weekday(self):
        return mkint(fmod(self.ord + 6, z3.IntVal(7)))

    def isoweekday(self):
        return mkint(fmod(self.ord + 6, z3.IntVal(7)) + 1)

    def toordinal(self):
        return mkint(self.ord)

    def time(self):
        return SymTime(self.us)

    def date(self):
        raise Unmodelled('datetime.date()')

    def strftime(self, fmt):
        raise Unmodelled('strftime of symbolic datetime')

    def isoformat(self, *a):
        raise Unmodelled('isoformat of symbolic datetime')

    def __str__(self):
        raise Unmodelled('str() of symbolic datetime')

    def __sym_str__(self):
        """str(datetime): 'YYYY-MM-DD HH:MM:SS' (+ '.ffffff' when the microsecond is non-zero), years 1000..9999"""
        from .values import mkstr
        y, m, d = self._ymd()
        if not _test(y >= 1000):
            raise Unmodelled('str() of a datetime before year 1000')

        def dig(z, n):
            out = []
            for i in range(n - 1, -1, -1):
                out.append(z3.simplify(fmod(fdiv(z, z3.IntVal(10 ** i)), z3.IntVal(10)) + 48))
            return out
        H, M, S = zint(self.hour), zint(self.minute), zint(self.second)
        cps = dig(y, 4) + [45] + dig(m, 2) + [45] + dig(d, 2) + [32] + dig(H, 2) + [58] + dig(M, 2) + [58] + dig(S, 2)
        us = zint(self.microsecond)
        if _test(us != 0):
            cps = cps + [46] + dig(us, 6)
        return mkstr(cps)

    def __hash__(self):
        raise Unmodelled('hash of symbolic datetime')

    # arithmetic ------------------------------------------------------------------------------
    def __sub__(self, o):
        if isinstance(o, (SymDateTime, _dt.datetime)):
            o = as_sym_dt(o)
            return SymTimedelta(z3.simplify((self.ord - o.ord) * US_DAY + (self.us - o.us)))
        if isinstance(o, (SymTimedelta, _dt.timedelta)):
            return self._shift(-td_us(o))
        return NotImplemented

    def __rsub__(self, o):
        if isinstance(o, _dt.datetime):
            return as_sym_dt(o).__sub__(self)
        return NotImplemented

    def __add__(self, o):
        if isinstance(o, (SymTimedelta, _dt.timedelta)):
            return self._shift(td_us(o))
        return NotImplemented
    __radd__ = __add__

    def _key(self):
        return self.ord * US_DAY + self.us

    def _cmp(self, o, f, eqop=None):
        if not isinstance(o, (SymDateTime, _dt.datetime)):
            if eqop is not None:
                return eqop
            return NotImplemented
        o = as_sym_dt(o)
        return mkbool(z3.simplify(f(self._key(), o._key())))

    def __eq__(self, o): return self._cmp(o, lambda a, b: a == b, False)
    def __ne__(self, o): return self._cmp(o, lambda a, b: a != b, True)
    def __lt__(self, o): return self._cmp(o, lambda a, b: a < b)
    def __le__(self, o): return self._cmp(o, lambda a, b: a <= b)
    def __gt__(self, o): return self._cmp(o, lambda a, b: a > b)
    def __ge__(self, o): return self._cmp(o, lambda a, b: a >= b)

    def __neg__(self):
        raise TypeError("bad operand type for unary -: 'datetime.datetime'")

    # engine interface ------------------------------------------------------------------------
    def __sym_concretize__(self, model):
        o = model.eval(self.ord, model_completion=True).as_long()
        u = model.eval(self.us, model_completion=True).as_long()
        return _dt.datetime.fromordinal(o) + _dt.timedelta(microseconds=u)

    def __sym_block__(self, model):
        return [self.ord != model.eval(self.ord, model_completion=True), self.us != model.eval(self.us, model_completion=True)]


def as_sym_dt(o):
    if isinstance(o, SymDateTime):
        return o
    if o.tzinfo is not None:
        raise Unmodelled('aware datetime')
    us = ((o.hour * 60 + o.minute) * 60 + o.second) * 10 ** 6 + o.microsecond
    return SymDateTime(z3.IntVal(o.toordinal()), z3.IntVal(us), (z3.IntVal(o.year), z3.IntVal(o.month), z3.IntVal(o.day)))


def make_timedelta(days=0, seconds=0, microseconds=0, milliseconds=0, minutes=0, hours=0, weeks=0):
    """datetime.timedelta(...) with symbolic arguments.  Float seconds are converted to microseconds with
    round-half-even, modelled exactly for integral values and as |us - 10^6 s| <= 1/2 (+2^-20 slack) otherwise."""
    total = z3.IntVal(0)
    for val, unit in ((days, US_DAY), (seconds, 10 ** 6), (microseconds, 1), (milliseconds, 1000),
                      (minutes, 60 * 10 ** 6), (hours, 3600 * 10 ** 6), (weeks, 7 * US_DAY)):
        if isinstance(val, (SymStr, str)):
            raise TypeError('unsupported type for timedelta component: str')
        if isinstance(val, SymFloat):
            if val.iz is not None:
                total = total + val.iz * unit
            else:
                e = E.cur()
                rterm = z3.simplify(val.r)
                key = ('td', rterm.get_id(), unit)
                hit = e.uf_cache.get(key)
                u = hit[1] if hit is not None else None
                if u is None:
                    u = z3.Int('td_us_%d' % e.nfresh)
                    e.nfresh += 1
                    exact = val.r * unit
                    slack = z3.RealVal(1) / 2 + z3.RealVal(1) / (2 ** 20)
                    e.add(z3.ToReal(u) - exact <= slack, exact - z3.ToReal(u) <= slack)
                    e.uf_cache[key] = (rterm, u)   # same float -> same microsecond count (the term is kept alive: ids are reused)
                total = total + u
        elif isinstance(val, float):
            if val == int(val):
                total = total + int(val) * unit
            else:
                total = total + td_us(_dt.timedelta(microseconds=0) + _dt.timedelta(seconds=val * unit / 10 ** 6))
        else:
            z = zint(val)
            if z is None:
                raise TypeError('unsupported type for timedelta component: %s' % type(val).__name__)
            total = total + z * unit
    total = z3.simplify(total)
    if z3.is_int_value(total):
        return _dt.timedelta(microseconds=total.as_long())
    if not _test(z3.And(total >= -999999999 * US_DAY, total < 1000000000 * US_DAY)):
        raise OverflowError('days=%s; must have magnitude <= 999999999')
    return SymTimedelta(total)


def combine(date, time, *a):
    d = as_sym_dt(date) if isinstance(date, (SymDateTime, _dt.datetime)) else None
    if d is None:
        raise Unmodelled('combine with date object')
    if isinstance(time, SymTime):
        return SymDateTime.make(d.ord, time.us, d.ymd)
    t = ((time.hour * 60 + time.minute) * 60 + time.second) * 10 ** 6 + time.microsecond
    return SymDateTime.make(d.ord, z3.IntVal(t), d.ymd)


def _hook(f, recv, a, kw):
    if f is _dt.datetime:
        return SymDateTime.construct(*a, **kw)
    if f is _dt.timedelta:
        return make_timedelta(*a, **kw)
    if recv is _dt.datetime and getattr(f, '__name__', '') == 'combine':
        return combine(*a)
    return NotImplemented


models.CALL_HOOKS.append(_hook)


def fresh_datetime(e, name, month=None, ymin=1900, ymax=9999, with_time=False, ms_resolution=True):
    """A symbolic date(-time): year in [ymin, ymax], month concrete or symbolic, any valid day;
    time of day at millisecond resolution when with_time."""
    y = z3.Int(name + '_y')
    d = z3.Int(name + '_d')
    e.bounded(y, ymin, ymax)
    if month is None:
        m = z3.Int(name + '_m')
        e.bounded(m, 1, 12)
    else:
        m = z3.IntVal(month)
    e.bounded(d, 1, 31)
    e.add(d <= z_days_in_month(y, m))
    if with_time:
        ms = z3.Int(name + '_ms')
        e.bounded(ms, 0, 86399999)
        us = ms * 1000
    else:
        us = z3.IntVal(0)
    return SymDateTime(z3.simplify(z_ymd2ord(y, m, d)), us, (y, m, d))


def fresh_datetime_ord(e, name, ord_min=None, ord_max=None, with_time=False):
    """A symbolic date(-time) given directly by its proleptic ordinal (any day in range) - for code that never reads
    year/month/day, this avoids the calendar arithmetic altogether."""
    o = z3.Int(name + '_ord')
    e.bounded(o, ord_min if ord_min is not None else _dt.date(1900, 1, 1).toordinal(), ord_max if ord_max is not None else MAXORD)
    if with_time:
        ms = z3.Int(name + '_ms')
        e.bounded(ms, 0, 86399999)
        us = ms * 1000
    else:
        us = z3.IntVal(0)
    return SymDateTime(o, us)


# ------------------------------------------------------------------------------------------------
# dateutil.parser.parse: not encodable.  On a symbolic string the stub forks into "some naive date-time" and
# ValueError (both outcomes are explored; which concrete texts are dates is decided by the real dateutil on replay).
def _iso_contract(e, timestr):
    """dateutil's documented behaviour on ISO 8601 text: YYYY-MM-DD, optionally followed by a blank or T and hh:mm or
    hh:mm:ss, denotes exactly that date-time.  Applied only when the SHAPE is provable from the path condition (digits at
    the digit positions, the separators concrete) and the fields are provably a valid date-time; anything else stays with
    the generic stub.  Validated against the real dateutil in the selftest."""
    cps = timestr.cps
    n = len(cps)
    if n not in (10, 16, 19):
        return None
    shape = 'dddd-dd-dd' + {10: '', 16: 'Tdd:dd', 19: 'Tdd:dd:dd'}[n]
    vals = []
    for c, k in zip(cps, shape):
        if k == 'd':
            if isinstance(c, int):
                if not 48 <= c <= 57:
                    return None
            elif not e.must(z3.And(c >= 48, c <= 57)):
                return None
            vals.append(zcp(c) - 48)
        elif k == 'T':
            if isinstance(c, int):
                if c not in (32, 84):
                    return None
            elif not e.must(z3.Or(c == 32, c == 84)):
                return None
        elif isinstance(c, int):
            if c != ord(k):
                return None
        elif not e.must(c == ord(k)):
            return None
    num = lambda ds: z3.simplify(sum(d * 10 ** (len(ds) - 1 - i) for i, d in enumerate(ds)))
    y, mo, d = num(vals[0:4]), num(vals[4:6]), num(vals[6:8])
    h = num(vals[8:10]) if n >= 16 else z3.IntVal(0)
    mi = num(vals[10:12]) if n >= 16 else z3.IntVal(0)
    sec = num(vals[12:14]) if n == 19 else z3.IntVal(0)
    valid = z3.And(y >= 1, mo >= 1, mo <= 12, d >= 1, d <= z_days_in_month(y, mo), h <= 23, mi <= 59, sec <= 59)
    if not e.must(valid):
        return None
    us = z3.simplify(((h * 60 + mi) * 60 + sec) * 10 ** 6)
    return SymDateTime(z3.simplify(z_ymd2ord(y, mo, d)), us, (y, mo, d))


def _dateutil_stub(timestr, *a, **kw):
    if not models.symbolic(timestr):
        from dateutil.parser import parse as real
        return real(timestr, *a, **kw)
    if not isinstance(timestr, SymStr):
        raise TypeError('Parser must be a string or character stream, not %s' % models._tname(timestr))
    e = E.cur()
    log = getattr(e, 'dateutil_log', None)
    if log is None:
        log = e.dateutil_log = []
    key = ('dateutil',) + tuple(c if isinstance(c, int) else ('z', c.get_id()) for c in timestr.cps)
    if key in e.uf_cache:          # the same text is the same date (or none) every time it is asked on a path
        d = e.uf_cache[key]
        log.append((timestr, d))
        if d is None:
            raise ValueError('String does not contain a date (dateutil stub)')
        return d
    iso = _iso_contract(e, timestr)
    if iso is not None:
        e.uf_cache[key] = iso
        log.append((timestr, iso))
        return iso
    if len(timestr) == 0 or e.choose(2) == 0:
        e.uf_cache[key] = None
        log.append((timestr, None))
        raise ValueError('String does not contain a date (dateutil stub)')
    d = fresh_datetime_ord(e, 'du%d' % len(log), 1, MAXORD, with_time=True)
    e.uf_cache[key] = d
    log.append((timestr, d))
    return d


try:
    from dateutil.parser import _parser as _dup
    models.PY_MODELS[_dup.parse] = _dateutil_stub
except ImportError:
    pass



class SymHostStamp(SymDateTime):
    """a symbolic date-time whose Python type is a SUBCLASS of datetime.datetime (host-supplied value)"""
    __pytype__ = HostStamp
    __slots__ = ()

    def __sym_concretize__(self, model):
        d = SymDateTime.__sym_concretize__(self, model)
        return HostStamp(d.year, d.month, d.day, d.hour, d.minute, d.second, d.microsecond)


def as_host_stamp(d):
    return SymHostStamp(d.ord, d.us, d.ymd)
