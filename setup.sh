#!/bin/bash
# Build the check environment offline: overlay venv on /venv (which has the repo's deps: ply, dateutil)
# plus z3-solver / cvc5 / crosshair-tool from the local wheelhouse.  Idempotent.
set -e
cd "$(dirname "$0")"
VENV=/verif/.venv
[ -n "$VERIF_VENV" ] && VENV="$VERIF_VENV"
if [ ! -x "$VENV/bin/python" ] || ! "$VENV/bin/python" -c 'import z3, ply, dateutil' 2>/dev/null; then
  rm -rf "$VENV"
  /venv/bin/python -m venv "$VENV"
  SP=$("$VENV/bin/python" -c 'import site; print(site.getsitepackages()[0])')
  echo "/venv/lib/python3.12/site-packages" > "$SP/overlay.pth"
  PIP_NO_INDEX=1 "$VENV/bin/pip" install -q --no-index --find-links /opt/veriftools/wheels z3-solver cvc5 crosshair-tool >/dev/null 2>&1 || \
  PIP_NO_INDEX=1 "$VENV/bin/pip" install -q --no-index --find-links /opt/veriftools/wheels z3-solver
fi
"$VENV/bin/python" -c 'import z3, ply, dateutil; print("venv ok: z3", z3.get_version_string())'
if [ "$1" != "--no-validate" ]; then
  "$VENV/bin/python" -m vf.cli selftest
fi
