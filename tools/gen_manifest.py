#!/usr/bin/env python3
"""Regenerates /verif/MANIFEST.json from the table below (kept in one place so it stays valid)."""
import json, os, sys
HERE = os.path.dirname(os.path.dirname(os.path.abspath(__file__)))

LEVEL_NOTE = ('Trusted: CPython, z3 (cvc5 as fallback on unknown), the AST rewriting pass and proxy models of vf/ '
              '(validated on every run: the repository test suite must pass through the instrumenting loader; every '
              'solver witness is replayed on the un-instrumented code before it is reported), the harness '
              'postconditions (written from the property text). Bounds and what lies outside them are in the '
              'evidence file per harness.')

CLAIMED = {
    # id: (technique, text, design_ref)
}

PENDING = {}

def load_table():
    t = json.load(open(os.path.join(HERE, 'tools', 'manifest_table.json')))
    return t

def main():
    t = load_table()
    checks = []
    for pid, c in sorted(t['claimed'].items()):
        checks.append({
            'property_id': pid,
            'quick_cmd': './check %s --tier quick' % pid,
            'thorough_cmd': './check %s --tier thorough' % pid,
            'evidence_file': '/verif/evidence/%s.json' % pid,
            'replay_cmd_template': './check %s --replay {path}' % pid,
            'engine': c.get('engine', 'S'),
            'level_claimed': {'category': 'model_checking', 'text': c['text'], 'design_ref': c.get('design_ref', 'DESIGN.md section 4')},
            'level_note': LEVEL_NOTE,
            'technique': c['technique'],
        })
    m = {
        'version': 1,
        'setup_cmd': './setup.sh',
        'hooks': {'guard': 'AIDHOUND_HOTXLFP_VERIF', 'enable': 'none needed: all instrumentation happens at load time on a scratch copy of /repo (vf/loader.py)',
                  'baseline_off_cmd': 'cd /repo && /venv/bin/python -m pytest -ra -q -p no:cacheprovider --timeout=900 --continue-on-collection-errors',
                  'source_commits': [], 'add_only': True},
        'engines': t['engines'],
        'checks': checks,
        'notes': t['notes'],
        'not_applicable': [{'property_id': k, 'reason': v} for k, v in sorted(t['not_applicable'].items())],
    }
    json.dump(m, open(os.path.join(HERE, 'MANIFEST.json'), 'w'), indent=1)
    import jsonschema  # optional
    return 0

if __name__ == '__main__':
    try:
        main()
    except ImportError:
        pass
    print('MANIFEST.json written')
