#!/usr/bin/env python3
"""tools/seedtest.py import <srcdir> <name>     copy an agent-written seed (patch.diff, demo.py, meta.json) to seeded/<name>/
   tools/seedtest.py verify <name>...           confirm in a scratch worktree: patch applies, 165 tests pass, demo fails with / passes without
   tools/seedtest.py run <name>... [--tier T]   apply the patch to /repo, run the property's check, undo; record the outcome in meta.json
"""
import json, os, shutil, subprocess, sys, tempfile, time
HERE = os.path.dirname(os.path.dirname(os.path.abspath(__file__)))
SEEDED = os.path.join(HERE, 'seeded')
PY = '/venv/bin/python'


def sh(cmd, cwd=None, env=None, timeout=3600):
    p = subprocess.run(cmd, shell=True, cwd=cwd, env=env, capture_output=True, text=True, timeout=timeout)
    return p.returncode, p.stdout + p.stderr


def do_import(src, name):
    dst = os.path.join(SEEDED, name)
    os.makedirs(dst, exist_ok=True)
    for f in ('patch.diff', 'demo.py', 'meta.json'):
        shutil.copy(os.path.join(src, f), os.path.join(dst, f))
    print('imported', name)


def verify(name):
    d = os.path.join(SEEDED, name)
    wt = tempfile.mkdtemp(prefix='seedwt_')
    os.rmdir(wt)
    rc, out = sh('git -C /repo worktree add -q --detach %s HEAD' % wt)
    assert rc == 0, out
    env = dict(os.environ, PYTHONPATH=wt, PYTHONDONTWRITEBYTECODE='1')
    res = {}
    try:
        # warm-up: ply writes its generated tables (and says so on stderr) on the first use in a fresh worktree
        sh('%s -c "import hotxlfp; hotxlfp.Parser().parse(\'1\')"' % PY, cwd=wt, env=dict(env, PYTHONDONTWRITEBYTECODE=''))
        rc, out = sh('%s %s/demo.py' % (PY, d), cwd=wt, env=env)
        res['demo_clean_exit'] = rc
        rc, out = sh('git apply %s/patch.diff' % d, cwd=wt)
        res['applies'] = (rc == 0)
        if rc != 0:
            res['apply_error'] = out[-300:]
        else:
            rc, out = sh('%s -m pytest -q -p no:cacheprovider tests' % PY, cwd=wt, env=env)
            res['tests_exit'] = rc
            res['tests_tail'] = out.strip().splitlines()[-1] if out.strip() else ''
            rc, out = sh('%s %s/demo.py' % (PY, d), cwd=wt, env=env)
            res['demo_patched_exit'] = rc
    finally:
        sh('git -C /repo worktree remove --force %s' % wt)
    res['confirmed'] = bool(res.get('applies') and res.get('tests_exit') == 0 and res.get('demo_clean_exit') == 0 and res.get('demo_patched_exit', 0) != 0)
    return res


def run(name, tier):
    d = os.path.join(SEEDED, name)
    meta = json.load(open(os.path.join(d, 'meta.json')))
    pid = meta['property'].split()[0].strip(':')
    rc, out = sh('git -C /repo status --porcelain')
    assert out.strip() == '', '/repo not clean: ' + out
    rc, out = sh('git -C /repo apply %s/patch.diff' % d)
    assert rc == 0, out
    t0 = time.time()
    try:
        rc, out = sh('./check %s --tier %s' % (pid, tier), cwd=HERE, timeout=7200)
    finally:
        sh('git -C /repo checkout -- .')
    lines = out.strip().splitlines()
    viol = [l for l in lines if l.startswith('VIOLATION')]
    first = [l for l in lines if l.startswith('  harness=')][:2]
    return {'check': './check %s --tier %s' % (pid, tier), 'exit': rc, 'violations': len(viol), 'detected': rc == 1 and bool(viol),
            'first_witnesses': [l.strip()[:400] for l in first], 'summary': lines[-1][:300] if lines else '', 'wall_s': round(time.time() - t0, 1)}


def main():
    cmd = sys.argv[1]
    if cmd == 'import':
        return do_import(sys.argv[2], sys.argv[3])
    tier = 'quick'
    args = sys.argv[2:]
    if '--tier' in args:
        i = args.index('--tier')
        tier = args[i + 1]
        args = args[:i] + args[i + 2:]
    names = args or sorted(os.listdir(SEEDED))
    for name in names:
        mp = os.path.join(SEEDED, name, 'meta.json')
        meta = json.load(open(mp))
        if cmd == 'verify':
            meta['confirmation'] = verify(name)
            print(name, 'confirmed' if meta['confirmation']['confirmed'] else 'NOT CONFIRMED', meta['confirmation'])
        elif cmd == 'run':
            r = run(name, tier)
            meta.setdefault('checks', {})[tier] = r
            print(name, 'DETECTED' if r['detected'] else 'MISSED', r['summary'][:160], r['first_witnesses'][:1])
        json.dump(meta, open(mp, 'w'), indent=1)


if __name__ == '__main__':
    main()
