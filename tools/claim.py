#!/usr/bin/env python3
"""tools/claim.py <pid> <technique> <text> [design_ref]  -- move a property to 'claimed' and regenerate MANIFEST.json"""
import json, os, sys, subprocess
HERE = os.path.dirname(os.path.dirname(os.path.abspath(__file__)))
tp = os.path.join(HERE, 'tools', 'manifest_table.json')
t = json.load(open(tp))
pid, tech, text = sys.argv[1:4]
t['claimed'][pid] = {'technique': tech, 'text': text, 'design_ref': sys.argv[4] if len(sys.argv) > 4 else 'DESIGN.md 4 ' + pid}
t['not_applicable'].pop(pid, None)
for e in t['engines']:
    if e['name'] == 'S' and pid not in e['serves_properties']:
        e['serves_properties'].append(pid); e['serves_properties'].sort()
json.dump(t, open(tp, 'w'), indent=1)
subprocess.check_call([sys.executable, os.path.join(HERE, 'tools', 'gen_manifest.py')])
