#!/usr/bin/env python3
"""tools/casedbg.py <harness> '<json params>' [quick|thorough]  -- run one case in-process, print per-case result"""
import sys, json, os
sys.path.insert(0, os.path.dirname(os.path.dirname(os.path.abspath(__file__))))
from vf import loader, runner
from vf.harness import REGISTRY
runner.load_harnesses()
h = REGISTRY[sys.argv[1]]
p = json.loads(sys.argv[2])
tier = sys.argv[3] if len(sys.argv) > 3 else 'quick'
sc = loader.make_scratch()
loader.install(sc, with_ply=h.needs_ply)
runner._worker_init(sc, h.needs_ply)
kfs = [k for k in runner.load_known_findings() if k.get('property') == h.prop]
r = runner.run_case((h.name, p, tier, kfs, 0))
for k in ('violations', 'known', 'undecided', 'samples', 'undecided_replays'):
    r.setdefault(k, [])
    print(k, len(r[k]))
    for x in r[k][:int(os.environ.get('N', 6))]:
        print('   ', json.dumps(x, default=str)[:700])
print({k: v for k, v in r.items() if k not in ('violations', 'known', 'undecided', 'samples', 'undecided_replays')})
