#!/usr/bin/env python3
"""prints the markdown table of seeded changes and which check catches them (from seeded/*/meta.json)"""
import json, os
HERE = os.path.dirname(os.path.dirname(os.path.abspath(__file__)))
rows = []
for name in sorted(os.listdir(os.path.join(HERE, 'seeded'))):
    mp = os.path.join(HERE, 'seeded', name, 'meta.json')
    if not os.path.exists(mp):
        continue
    m = json.load(open(mp))
    c = m.get('checks', {})
    q = c.get('quick') or {}
    t = c.get('thorough') or {}
    det = 'quick' if q.get('detected') else ('thorough' if t.get('detected') else 'MISSED')
    wit = (q.get('first_witnesses') or t.get('first_witnesses') or [''])[0]
    h = wit.split('harness=')[1].split(' ')[0] if 'harness=' in wit else ''
    conf = 'yes' if m.get('confirmation', {}).get('confirmed') else 'no'
    rows.append('| %s | %s | %s | %s | %s | %s |' % (name, m.get('property', '')[:4], m.get('summary', '').replace('|', '/')[:150], conf, det, h))
print('| seed | prop | change | confirmed | caught by tier | harness that reports it |')
print('|---|---|---|---|---|---|')
print('\n'.join(rows))
