#!/bin/bash
# runs every property's quick check on the current /repo tree (as `vp check` does) and reports the summary lines
cd "$(dirname "$0")/.."
export VERIF_SEED=${VERIF_SEED:-1} VERIF_TIER=quick
rc=0
for i in $(seq -w 1 20); do
  p=C$i
  s=$(date +%s)
  out=$(./check $p --tier quick 2>&1); code=$?
  echo "$p exit=$code $(( $(date +%s) - s ))s  $(echo "$out" | grep -E "^$p tier=" | cut -c1-170)"
  echo "$out" | grep -E "^VIOLATION|UNDECIDED|HARNESS-ERROR|VACUOUS|TRANSLATOR" | head -5
  [ $code -ne 0 ] && rc=1
done
exit $rc
