#!/bin/bash
# tools/run_thorough.sh C02 C05 ...  -- runs the thorough check of each listed property in turn, one summary line each
cd "$(dirname "$0")/.."
export VERIF_SEED=${VERIF_SEED:-1}
for p in "$@"; do
  s=$(date +%s)
  out=$(./check $p --tier thorough 2>&1); code=$?
  echo "$p exit=$code $(( $(date +%s) - s ))s  $(echo "$out" | grep -E "^$p tier=" | cut -c1-200)"
  echo "$out" | grep -E "^VIOLATION|UNDECIDED|HARNESS-ERROR|VACUOUS|TRANSLATOR" | head -8
done
